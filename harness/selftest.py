"""Demonstrates that the binding bites: one recorded field is corrupted (or one event removed) in a
trace recorded from the real implementation, and the TLC monitor has to report the corresponding
clause.  A corruption that goes unnoticed means a vacuous clause -> exit 2 (machinery failure)."""
import copy
import json
import multiprocessing as mp
import os
import shutil
import sys

from harness import tlc, replay, corpus
from harness.export import render_scenario_tla


def first(evs, pred):
    for i, e in enumerate(evs):
        if pred(e):
            return i
    raise LookupError("no event for corruption")


def is_succ_step(e):
    return e["ev"] == "step" and e["info"]["success"] and e["post_rows"]


def c_flip_success(evs):
    i = first(evs, is_succ_step)
    evs[i]["info"]["success"] = False


def c_reward(evs):
    i = first(evs, lambda e: e["ev"] == "genstep")
    evs[i]["reward"] += 1000


def c_clear_disc(evs, col):
    i = first(evs, lambda e: e["ev"] == "step" and e["a"].get("idx") is not None and e["info"]["newly"])
    evs[i]["post_rows"][-1][1][col] = 0


def c_obs_shift(evs):
    i = first(evs, lambda e: e["ev"] == "genstep" and e["obs"]["explicit"])
    row = evs[i]["obs"]["explicit"][0][1]
    evs[i]["obs"]["explicit"][0][1] = row[-1:] + row[:-1]


def c_remove(evs):
    # a successful step whose environment goes on acting before it is reset (a step that is followed by a reset at
    # once leaves nothing behind that a log could show)
    for i, e in enumerate(evs):
        if not is_succ_step(e) or not e["post_rows"]:
            continue
        nxt = [x for x in evs[i + 1:] if x.get("env") == e["env"] and x["ev"] in ("step", "genstep", "reset")]
        if nxt and nxt[0]["ev"] != "reset":
            del evs[i]
            return
    raise LookupError("no event for corruption")


def c_narrow_create(evs):
    """every state row of the first create event loses its last column (an environment built with other dimensions):
    must be reported under C09 and must not stop the monitor"""
    i = first(evs, lambda e: e["ev"] == "create")
    evs[i]["tensor"] = [r[:-1] for r in evs[i]["tensor"]]


def c_narrow_step(evs):
    i = first(evs, lambda e: e["ev"] == "step" and e["post_rows"])
    evs[i]["post_rows"] = [[r[0], r[1][:-1]] for r in evs[i]["post_rows"]]


def c_mask(evs):
    i = first(evs, lambda e: e["ev"] == "mask")
    evs[i]["mask"][0] = 1 - evs[i]["mask"][0]


def c_action_cost(evs):
    i = first(evs, lambda e: e["ev"] == "actions")
    evs[i]["list"][4]["cost"] += 1


def c_decode(evs):
    i = first(evs, lambda e: e["ev"] == "decode" and e["got"]["kind"] == "exploit")
    evs[i]["got"]["prob"] -= 1


def c_decode_missing(evs):
    i = first(evs, lambda e: e["ev"] == "decode")
    del evs[i]


def c_readable(evs):
    i = first(evs, lambda e: e["ev"] == "readable" and e["what"] == "state")
    evs[i]["readable"][0]["reach"] = not evs[i]["readable"][0]["reach"]


def c_term(evs):
    i = first(evs, lambda e: e["ev"] == "step")
    evs[i]["term"] = not evs[i]["term"]


def c_trunc(evs):
    i = first(evs, lambda e: e["ev"] == "step")
    evs[i]["trunc"] = not evs[i]["trunc"]


def c_arg_sha(evs):
    i = first(evs, lambda e: e["ev"] == "genstep")
    evs[i]["arg_sha"][1] = "0" * 16


def c_shares(evs):
    i = first(evs, lambda e: e["ev"] == "genstep")
    evs[i]["shares_memory"] = True


def c_group(evs):
    i = first(evs, lambda e: e["ev"] == "step" and e.get("grp") and e["env"] == 2)
    evs[i]["info"]["value"] += 5


def c_create_swap(evs):
    i = first(evs, lambda e: e["ev"] == "create")
    row = evs[i]["tensor"][0]
    row[-1], row[-2] = row[-2] + 1000, row[-1]


def c_aux(evs):
    i = first(evs, lambda e: e["ev"] == "genstep")
    evs[i]["obs"]["aux"][4] = 1000


def c_ndraw(evs):
    i = first(evs, lambda e: e["ev"] == "genstep" and e["ndraw"] == 1)
    evs[i]["ndraw"] = 2


def c_entropy(evs):
    i = first(evs, lambda e: e["ev"] == "step")
    evs[i]["entropy"] = ["numpy.random.randint"]


def c_steps(evs):
    i = first(evs, lambda e: e["ev"] == "step")
    evs[i]["steps_after"] += 1


def c_goal(evs):
    i = first(evs, lambda e: e["ev"] == "goal")
    evs[i]["ans"] = not evs[i]["ans"]


def c_value_config(evs, col):
    i = first(evs, is_succ_step)
    evs[i]["post_rows"][0][1][col] += 1000


def c_dtype(evs):
    i = first(evs, lambda e: e["ev"] == "step")
    evs[i]["obs"]["dtype"] = "float64"


def c_reset_dirty(evs, col):
    i = first(evs, lambda e: e["ev"] == "reset" and e["post_rows"])
    evs[i]["post_rows"][0][1][col] = 1000


def corruptions(cs):
    ns, nh = cs["bounds"]
    comp, reach, disc, val = ns + nh, ns + nh + 1, ns + nh + 2, ns + nh + 3
    return [
        ("flip success of a successful step", c_flip_success, {"C01", "C07"}),
        ("add 1 to a reward", c_reward, {"C05"}),
        ("clear a discovered bit in a post-state", lambda e: c_clear_disc(e, disc), {"C03"}),
        ("rotate one observation row", c_obs_shift, {"C08"}),
        ("remove one successful step", c_remove, {"C06", "C04", "C13"}),
        ("flip one mask entry", c_mask, {"C11"}),
        ("change the cost of one listed action", c_action_cost, {"C11"}),
        ("change a decoded parameter action", c_decode, {"C11"}),
        ("drop one decoded vector", c_decode_missing, {"C11"}),
        ("flip one readable flag", c_readable, {"C09"}),
        ("flip terminated", c_term, {"C06"}),
        ("flip truncated", c_trunc, {"C06"}),
        ("state rows of a create event one column short", c_narrow_create, {"C09"}),
        ("changed rows of a step one column short", c_narrow_step, {"C09"}),
        ("argument fingerprint changes over generative_step", c_arg_sha, {"C13"}),
        ("result shares storage", c_shares, {"C13"}),
        ("one environment of a lock-step group gets a different value", c_group, {"C12"}),
        ("swap two columns of the initial tensor", c_create_swap, {"C09"}),
        ("set an auxiliary entry", c_aux, {"C08", "C09"}),
        ("two draws consumed", c_ndraw, {"C07"}),
        ("another entropy source used", c_entropy, {"C14"}),
        ("step counter jumps", c_steps, {"C06"}),
        ("flip goal answer", c_goal, {"C06"}),
        ("scribble on a value column", lambda e: c_value_config(e, val), {"C04"}),
        ("observation dtype float64", c_dtype, {"C10"}),
        ("reset leaves a compromised bit", lambda e: c_reset_dirty(e, comp), {"C04"}),
    ]


def _one(args):
    i, name, tla, trace, want = args
    wd = tlc.scratch_dir()
    try:
        r = tlc.run_monitor(tla, trace, workdir=wd)
        got = set(f[0] for f in r.fails()) - {"DRIFT", "BEYOND"}
        return (name, sorted(got), sorted(want), bool(got & want))
    except tlc.TLCError as ex:
        return (name, ["<unconsumed>"], sorted(want), False)
    finally:
        shutil.rmtree(wd, ignore_errors=True)


def run(light=False):
    sys.path[:0] = [p for p in (corpus.REPO,) if p not in sys.path]
    from harness.rec import Recorder
    sp = corpus.SPECS["chain"]
    cs = corpus.cs_of(sp)
    scn = corpus.build_dict_scenario(sp)
    tla = render_scenario_tla(cs)
    base = tlc.scratch_dir()
    try:
        wd = os.path.join(base, "explore")
        os.makedirs(wd)
        r = replay.explore(cs, wd, dump=True)
        graph = replay.parse_dump(r.out)
        trace = os.path.join(base, "trace.ndjson")
        rec = Recorder(trace, len(cs["hosts"]), cs=cs)
        replay.replay(cs, scn, graph, rec, max_states=8, foreign=False)
        rec.close()
        evs = [json.loads(l) for l in open(trace)]
        # the recorded log follows the published event schema (checked with jsonschema from the tooling venv)
        import subprocess
        code = ("import json,jsonschema,sys\n"
                "s=json.load(open(sys.argv[1]))\n"
                "n=0\n"
                "for l in open(sys.argv[2]):\n"
                "    jsonschema.validate(json.loads(l), s); n+=1\n"
                "print('schema ok for', n, 'events')\n")
        schema = os.path.join(os.path.dirname(os.path.abspath(__file__)), "trace.schema.json")
        try:
            p = subprocess.run(["python3-vt", "-c", code, schema, trace], stdout=subprocess.PIPE, stderr=subprocess.PIPE,
                               text=True, timeout=300)
            if p.returncode != 0:
                print("selftest: recorded trace does not follow harness/trace.schema.json: " + p.stderr[-400:])
                return 2
            print("selftest: " + p.stdout.strip())
        except FileNotFoundError:
            print("selftest: python3-vt not available, schema validation skipped")
        clean = _one((0, "clean", tla, trace, set()))
        if clean[1]:
            print("selftest: the unmodified trace already fails: %s" % (clean[1],))
            return 2
        jobs = []
        cors = corruptions(cs)
        if light:
            cors = cors[:8]
        for i, (name, fn, want) in enumerate(cors):
            e2 = copy.deepcopy(evs)
            fn(e2)
            for j, e in enumerate(e2):
                e["i"] = j + 1
            path = os.path.join(base, "c%d.ndjson" % i)
            with open(path, "w") as fh:
                for e in e2:
                    fh.write(json.dumps(e, separators=(",", ":")) + "\n")
            jobs.append((i, name, tla, path, want))
        with mp.get_context("fork").Pool(8) as pool:
            results = pool.map(_one, jobs)
        bad = 0
        for name, got, want, ok in results:
            print("%-62s %s  reported under %s" % (name, "detected" if ok else "MISSED", ",".join(got) or "-"))
            bad += 0 if ok else 1
        print("selftest: %d corruptions, %d missed" % (len(results), bad))
        return 2 if bad else 0
    finally:
        shutil.rmtree(base, ignore_errors=True)
