"""Spec => code: TLC explores NASimEnv exhaustively for one scenario and prints every transition;
the real environment is walked to every state by reset() + step() along a BFS tree and every
transition is executed on it (generative_step, and step on tree edges).  The recorded calls are
validated by the trace monitor."""
import collections
import re

from harness import tlc, pyref
from harness.export import render_scenario_tla

ENV_CFG = """SPECIFICATION Spec
CONSTANTS
 StepCap <- %(cap)s
 DumpEdges = %(dump)s
VIEW view
ACTION_CONSTRAINT ClausesHold
%(constraint)s
INVARIANT TypeOK
INVARIANT InvReach
INVARIANT InvChain
INVARIANT InvPaidVal
INVARIANT InvPaidDisc
PROPERTY MonotoneSteps
PROPERTY ResetRestores
CHECK_DEADLOCK FALSE
"""


def explore(cs, workdir, dump=True, step_cap=None, workers=1, timeout=3600, coverage=False):
    """run TLC on NASimEnv for scenario cs; returns tlc.Result"""
    tlc.prepare(workdir, render_scenario_tla(cs))
    extra = {}
    if step_cap is None:
        cap = "Untracked"
        constraint = ""
    else:
        cap = "Cap"
        constraint = "CONSTRAINT StepBound"
        # a tiny wrapper module supplies the numeric cap (cfg files cannot hold every literal)
    cfg = ENV_CFG % dict(cap=cap, dump="TRUE" if dump else "FALSE", constraint=constraint)
    module = "NASimEnv"
    if step_cap is not None:
        module = "NASimEnvCap"
        extra["NASimEnvCap.tla"] = ("---- MODULE NASimEnvCap ----\nEXTENDS NASimEnv\nCap == %d\n====\n" % step_cap)
        for n, t in extra.items():
            with open(workdir + "/" + n, "w") as fh:
                fh.write(t)
    args = ["-coverage", "1"] if coverage else []
    return tlc.run(workdir, module, cfg, workers=workers, timeout=timeout, extra_args=args, heap="8g")


def parse_dump(out):
    init = None
    params = {}
    edges = set()
    for m in re.finditer(r'<<\s*"INIT",\s*<<([\d,\s]*)>>\s*>>', out):
        init = tuple(int(x) for x in m.group(1).split(",") if x.strip())
    for m in re.finditer(r'<<\s*"PARAM",\s*(\d+),\s*<<([\d,\s]*)>>,\s*(TRUE|FALSE)\s*>>', out):
        params[int(m.group(1))] = ([int(x) for x in m.group(2).split(",")], m.group(3) == "TRUE")
    for m in re.finditer(r'<<\s*"EDGE",\s*<<([\d,\s]*)>>,\s*(\d+),\s*(TRUE|FALSE),\s*<<([\d,\s]*)>>,\s*"([a-z_]+)"\s*>>', out):
        pre = tuple(int(x) for x in m.group(1).split(","))
        post = tuple(int(x) for x in m.group(4).split(","))
        edges.add((pre, int(m.group(2)), m.group(3) == "TRUE", post, m.group(5)))
    return init, params, edges


def bfs(init, edges):
    out = collections.defaultdict(list)
    for e in sorted(edges):
        out[e[0]].append(e)
    parent = {init: None}
    order = [init]
    q = collections.deque([init])
    while q:
        s = q.popleft()
        for e in out[s]:
            if e[3] not in parent:
                parent[e[3]] = e
                order.append(e[3])
                q.append(e[3])
    return out, parent, order


def path_to(parent, s):
    p = []
    while parent[s] is not None:
        e = parent[s]
        p.append(e)
        s = e[0]
    p.reverse()
    return p


# (fully_obs, flat_actions, flat_obs) of the environments driven side by side
DEFAULT_MODES = ((False, True, True), (True, False, False))
FLAT_ENCS = ["int", "npint", "np0d"]
VEC_ENCS = ["list", "tuple", "ndarray"]


def spec_for(cs, params, k, flat_space, counter):
    """how to pass spec action k to an environment with the given kind of action space"""
    n = pyref.n_actions(cs)
    if k == 0 or k > n:
        return ("obj", pyref.flat_action(cs, k))
    if counter % 11 == 10:
        return ("obj", pyref.flat_action(cs, k))
    if flat_space:
        return (FLAT_ENCS[counter % 3], k - 1)
    vec, ok = params.get(k, (None, False))
    if ok:
        return (VEC_ENCS[counter % 3], vec)
    return ("obj", pyref.flat_action(cs, k))


ALL_MODES = tuple((fo, fa, f1) for fo in (False, True) for fa in (True, False) for f1 in (True, False))


def replay(cs, scenario, graph, rec, modes=DEFAULT_MODES, foreign=True, max_states=None, extras=True,
           decode_limit=None, readable=True):
    """walk the real environments through the whole graph; returns counters"""
    init, params, edges = graph
    out, parent, order = bfs(init, edges)
    if max_states:
        order = order[:max_states]
    eids = []
    for i, (fo, fa, f1) in enumerate(modes):
        rec.create(i + 1, scenario, fo, fa, f1)
        eids.append(i + 1)
    flat_envs = [e for j, e in enumerate(eids) if modes[j][1]]
    param_envs = [e for j, e in enumerate(eids) if not modes[j][1]]
    if extras:
        for e in eids:
            rec.actions(e)
        if param_envs:
            rec.decode_all(param_envs[0], limit=decode_limit)
    # a vector of the parameterised space that the implementation decodes to the no-op (input selection only)
    noop_vec = None
    if param_envs:
        try:
            import itertools
            sp_ = rec.envs[param_envs[0]].action_space
            for vec in itertools.islice(itertools.product(*[range(int(x)) for x in sp_.nvec]), 4000):
                if vec[0] in (0, 1) and sp_.get_action(list(vec)).is_noop():
                    noop_vec = [int(x) for x in vec]
                    break
        except Exception:      # noqa
            noop_vec = None
    counter = 0
    grp = 0
    kept = {}
    n_edges = 0
    tree_steps = 0
    for si, s in enumerate(order):
        path = path_to(parent, s)
        for e in eids:
            rec.reset(e)
        for (pre, k, luck, post, gate) in path:
            a = pyref.flat_action(cs, k)
            u = pyref.draw_for(a["prob"], luck, 0)
            counter += 1
            grp += 1
            sps = [spec_for(cs, params, k, modes[j][1], counter + j) for j in range(len(eids))]
            for j, e in enumerate(eids):
                rec.genstep(e, None, sps[j], u, grp=grp)
            if foreign and kept and counter % 3 == 0:
                # a look-ahead with the same action from ANOTHER (kept) state between generative_step(current) and
                # step(): the step must still be the current state's
                ks = list(kept.values())
                rec.genstep(eids[0], ks[counter % len(ks)], sps[0], u)
            last = None
            for j, e in enumerate(eids):
                last = rec.step(e, sps[j], u, grp=grp)
                tree_steps += 1
        # the no-op through real steps (as an object; for a parameterised space also as a vector that decodes to it)
        if si % 2 == 0:
            for j, e in enumerate(eids):
                if noop_vec is not None and not modes[j][1] and si % 4 == 0:
                    nsp = (VEC_ENCS[si % 3], noop_vec)
                else:
                    nsp = ("obj", pyref.flat_action(cs, 0))
                rec.genstep(e, None, nsp, 0.5)
                rec.step(e, nsp, 0.5)
        kept[s] = rec.hold(rec.envs[eids[0]].current_state)
        for e in eids[:2]:
            rec.goal(e, None)
        if extras and si % 5 == 2:
            # documented as leaving the environment alone: asked for in the middle of an episode, before the
            # out-edges of this state are executed
            rec.init_states(eids[si % len(eids)])
        if extras:
            for e in flat_envs[:1]:
                rec.mask(e)
            if readable:
                rec.readable_state(eids[si % len(eids)], cs)
                e = eids[(si + 1) % len(eids)]
                env = rec.envs[e]
                rec.readable_obs(e, cs, env.last_obs.numpy_flat() if env.flat_obs else env.last_obs.numpy())
        # the unlucky side of an action right before its lucky side (an implementation that remembers a failure
        # must not let it decide the retry)
        for (pre, k, luck, post, gate) in sorted(out[s], key=lambda ed: (ed[1], ed[2])):
            a = pyref.flat_action(cs, k)
            n_edges += 1
            grp += 1
            # both distances from the probability are used, on alternating environments; the members of a
            # lock-step group (same draw) are recorded contiguously
            for j in list(range(0, len(eids), 2)) + list(range(1, len(eids), 2)):
                e = eids[j]
                u = pyref.draw_for(a["prob"], luck, j % 2)
                counter += 1
                rec.genstep(e, None, spec_for(cs, params, k, modes[j][1], counter), u, grp=grp * 2 + (j % 2))
        # the same through real steps: a chance failure, then the very same action again with a lucky draw
        unl = sorted(set(k for (pre, k, luck, post, gate) in out[s] if gate == "unlucky"))
        if unl:
            k = unl[si % len(unl)]
            a = pyref.flat_action(cs, k)
            for j, e in enumerate(eids[:2]):
                counter += 1
                sp_ = spec_for(cs, params, k, modes[j][1], counter)
                rec.step(e, sp_, pyref.draw_for(a["prob"], False, j % 2))
                rec.step(e, sp_, pyref.draw_for(a["prob"], True, j % 2))
                tree_steps += 2
        if foreign and si > 0:
            s2 = order[(si * 7 + 3) % si]
            obj = kept[s2]
            rec.goal(eids[0], obj)
            for (pre, k, luck, post, gate) in out[s2]:
                a = pyref.flat_action(cs, k)
                counter += 1
                rec.genstep(eids[0], obj, spec_for(cs, params, k, modes[0][1], counter),
                            pyref.draw_for(a["prob"], luck, 0))
    if extras and order:
        # copy.deepcopy(environment) in the middle of an episode (the deepest state's walk): parent and copy go on
        s_ = order[-1]
        for e in eids[:1]:
            rec.reset(e)
            for (pre, k, luck, post, gate) in path_to(parent, s_):
                a = pyref.flat_action(cs, k)
                rec.step(e, spec_for(cs, params, k, modes[0][1], 0), pyref.draw_for(a["prob"], luck, 0))
            new_e = len(eids) + 1
            if rec.fork(e, new_e).get("ev") == "fork":
                for t_, (pre, k, luck, post, gate) in enumerate(list(out[s_])[:12] + list(out[order[0]])[:6]):
                    a = pyref.flat_action(cs, k)
                    rec.step((e, new_e)[t_ % 2], spec_for(cs, params, k, modes[0][1], t_),
                             pyref.draw_for(a["prob"], luck, 0))
                rec.reset(new_e)
                rec.goal(new_e, None)
    for e in eids:
        rec.reset(e)
    if extras:
        rec.init_states(eids[0])
    if foreign and len(order) > 1:
        # final pass: the environments sit in the INITIAL state of a fresh episode while generative_step is given
        # the deepest stored states of earlier episodes (an implementation that keeps episode bookkeeping outside
        # the state object answers for the wrong state)
        for s2 in order[-min(8, len(order) - 1):]:
            obj = kept[s2]
            rec.goal(eids[0], obj)
            for (pre, k, luck, post, gate) in out[s2]:
                a = pyref.flat_action(cs, k)
                counter += 1
                rec.genstep(eids[0], obj, spec_for(cs, params, k, modes[0][1], counter),
                            pyref.draw_for(a["prob"], luck, 0))
    return dict(states=len(order), edges=n_edges, tree_steps=tree_steps,
                gates=collections.Counter((pyref.flat_action(cs, e[1])["kind"], e[4], e[2]) for e in edges))
