"""Shared plumbing of the checks: tiers, seeds, evidence files, known findings, exit codes."""
import json
import os
import sys
import time

ROOT = os.path.dirname(os.path.dirname(os.path.abspath(__file__)))
EVIDENCE_DIR = os.environ.get("VERIF_EVIDENCE", os.path.join(ROOT, "evidence"))
REPLAY_DIR = os.path.join(EVIDENCE_DIR, "replays")
KF_PATH = os.path.join(ROOT, "known_findings.json")

ASSUMPTIONS = [
    "numbers of the scenario (costs, values, discovery values) satisfy |x| <= 1000 with <= 3 decimals, so float32 "
    "storage cannot move a milli-rounded value; probabilities are compared in ppm and scripted draws stay >= 1e-5 "
    "away from every action probability",
    "scenario documents use the canonical '(s, h)' key spelling of the shipped files; topologies are symmetric and "
    "self-connected; host dictionaries are in scenario order",
    "TLC, the substitution point numpy.random.* and SHA-256 fingerprints are trusted",
]


def tier():
    t = os.environ.get("VERIF_TIER", "quick")
    return t if t in ("quick", "thorough") else "quick"


def seed():
    try:
        return int(os.environ.get("VERIF_SEED", "0"))
    except ValueError:
        return 0


def load_known_findings():
    if not os.path.exists(KF_PATH):
        return []
    with open(KF_PATH) as fh:
        return json.load(fh)["findings"]


def open_findings(prop):
    return [k for k in load_known_findings() if k["property"] == prop and k["status"] == "open"]


def write_evidence(prop, tier_, seed_, level, coverage, wall, violations, assumptions=None, extra=None):
    os.makedirs(EVIDENCE_DIR, exist_ok=True)
    ev = dict(property_id=prop, tier=tier_, seed=int(seed_), level=level, coverage=coverage,
              assumptions=(assumptions if assumptions is not None else ASSUMPTIONS), wall_s=round(wall, 2),
              violations=int(violations))
    if extra:
        ev.update(extra)
    with open(os.path.join(EVIDENCE_DIR, prop + ".json"), "w") as fh:
        json.dump(ev, fh, indent=1, default=str)
    return ev


class Verdict:
    """collects violations / known findings / machinery errors and turns them into the exit code"""

    def __init__(self, prop):
        self.prop = prop
        self.violations = []      # (what, replay path)
        self.known = []           # text
        self.machinery = []       # text
        self.t0 = time.time()

    def violation(self, what, replay):
        self.violations.append((what, replay))

    def finish(self):
        for k in self.known:
            print("KNOWN-FINDING: property=%s %s" % (self.prop, k))
        if self.machinery:
            for m in self.machinery[:5]:
                print("MACHINERY-FAILURE property=%s %s" % (self.prop, m), file=sys.stderr)
            return 2
        if self.violations:
            seen = set()
            for what, rp in self.violations:
                if (what, rp) in seen:
                    continue
                seen.add((what, rp))
                print("violated: %s" % what)
                print("VIOLATION property=%s replay=%s" % (self.prop, rp))
            return 1
        print("OK property=%s (%.1fs)" % (self.prop, time.time() - self.t0))
        return 0
