"""C16 (generated and shipped scenarios are solvable) and C20 (advertised score upper bound) with spec/NASimPlan.tla."""
import collections
import json
import multiprocessing as mp
import os
import re
import shutil
import sys
import time
import traceback

from harness import common, tlc, corpus, dynamic, pyref
from harness.common import Verdict
from harness.export import render_scenario_tla, milli

PLAN_CFG = """SPECIFICATION Spec
CONSTANT PlanMode = "%s"
VIEW view
%s
CHECK_DEADLOCK FALSE
"""


def greedy_plan(cs, workdir, timeout=3600):
    """TLC on the greedy relation with invariant NoPlan -> (solvable?, plan [1-based action ids], tlc.Result)"""
    tlc.prepare(workdir, render_scenario_tla(cs))
    r = tlc.run(workdir, "NASimPlan", PLAN_CFG % ("greedy", "INVARIANT NoPlan"), workers=1, timeout=timeout, heap="4g")
    violated = "Invariant NoPlan is violated" in r.out
    # the counterexample: the value of `last` in the successive states of the error trace
    i = r.out.find("Invariant NoPlan is violated")
    plan = [int(m.group(1)) for m in re.finditer(r"/\\ last = (\d+)", r.out[i:])] if i >= 0 else []
    plan = [k for k in plan if k > 0]
    if not violated and not r.completed:
        raise tlc.TLCError("NASimPlan did not complete:\n" + r.tail(30))
    return violated, plan, r


def exhaustive_goal_reachable(cs, workdir):
    """spec-level cross-check of the greedy verdict: is a goal state reachable in the full model?"""
    tlc.prepare(workdir, render_scenario_tla(cs))
    cfg = ("SPECIFICATION Spec\nCONSTANTS\n StepCap <- Untracked\n DumpEdges = FALSE\nVIEW view\n"
           "INVARIANT GoalNeverReached\nCHECK_DEADLOCK FALSE\n")
    r = tlc.run(workdir, "NASimEnv", cfg, workers=4, timeout=1800, heap="4g")
    return "Invariant GoalNeverReached is violated" in r.out, r


def c16_job(job):
    t0 = time.time()
    res = dict(name=str(job["src"]), machinery=None, solvable=None, plan_len=0, fails=[], events=0, states=0,
               transitions=0, load_refused=None)
    wd = tlc.scratch_dir()
    try:
        sys.path[:0] = [p for p in (corpus.REPO,) if p not in sys.path]
        from harness.rec import Recorder
        try:
            scn, cs = dynamic.load_source(job["src"], wd)
        except Exception as ex:
            res["load_refused"] = "%s: %s" % (type(ex).__name__, str(ex)[:200])
            return res
        res["name"] = cs["name"]
        pwd = os.path.join(wd, "plan")
        os.makedirs(pwd)
        solvable, plan, r = greedy_plan(cs, pwd)
        res.update(solvable=solvable, plan_len=len(plan), states=r.distinct, transitions=r.generated, plan=plan[:60])
        if job.get("crosscheck"):
            xwd = os.path.join(wd, "x")
            os.makedirs(xwd)
            reach, rx = exhaustive_goal_reachable(cs, xwd)
            res["exhaustive_reachable"] = reach
            res["states"] += rx.distinct
            res["transitions"] += rx.generated
            if reach != solvable:
                res["machinery"] = "greedy verdict (%s) differs from exhaustive reachability (%s)" % (solvable, reach)
                return res
        if not solvable:
            os.makedirs(common.REPLAY_DIR, exist_ok=True)
            rp = os.path.join(common.REPLAY_DIR, "C16-%s.tla" % cs["name"])
            with open(rp, "w") as fh:
                fh.write(render_scenario_tla(cs))
            res["replay"] = rp
            return res
        trace = os.path.join(wd, "trace.ndjson")
        rec = Recorder(trace, len(cs["hosts"]), cs=cs)
        rec.create(1, scn, False, True, True)
        rec.reset(1)
        ev = None
        for k in plan:
            a = pyref.flat_action(cs, k)
            ev = rec.step(1, ("int", k - 1), pyref.draw_for(a["prob"], True, 0))
        env = rec.envs[1]
        rec.emit(dict(ev="plan_end", env=1, term=bool(ev and ev.get("ev") == "step" and ev["term"]),
                      goal=bool(env.goal_reached()), n=len(plan)))
        # the same plan on a second environment, interrupted three times by the helpers that are documented as not
        # touching the environment (initial-state generators, goal query, action mask)
        rec.create(2, scn, True, True, False)
        rec.reset(2)
        ev = None
        stops = {len(plan) // 4, len(plan) // 2, (3 * len(plan)) // 4}
        for i_, k in enumerate(plan):
            if i_ in stops and i_ > 0:
                rec.init_states(2)
                rec.goal(2, None)
                rec.mask(2)
            a = pyref.flat_action(cs, k)
            ev = rec.step(2, ("int", k - 1), pyref.draw_for(a["prob"], True, 1))
        rec.emit(dict(ev="plan_end", env=2, term=bool(ev and ev.get("ev") == "step" and ev["term"]),
                      goal=bool(rec.envs[2].goal_reached()), n=len(plan)))
        rec.close()
        res["events"] = rec.i
        mon = os.path.join(wd, "mon")
        os.makedirs(mon)
        m = tlc.run_monitor(render_scenario_tla(cs), trace, workdir=mon)
        res["fails"] = [f for f in m.fails() if f[0] not in ("DRIFT", "BEYOND")]
        res["drift"] = len([f for f in m.fails() if f[0] == "DRIFT"])
        if res["fails"]:
            os.makedirs(common.REPLAY_DIR, exist_ok=True)
            base = os.path.join(common.REPLAY_DIR, "C16-%s" % cs["name"])
            dynamic.keep_replay(trace, render_scenario_tla(cs), res["fails"], base)
            res["replay"] = base + ".ndjson"
    except tlc.TLCError as ex:
        res["machinery"] = str(ex)[-2000:]
    except Exception:
        res["machinery"] = traceback.format_exc()[-2000:]
    finally:
        shutil.rmtree(wd, ignore_errors=True)
        res["wall"] = time.time() - t0
    return res


GEN_BENCH = ["tiny-gen", "tiny-gen-rgoal", "small-gen", "small-gen-rgoal", "medium-gen", "large-gen", "huge-gen",
             "pocp-1-gen", "pocp-2-gen"]


def random_gen_params(rng, i):
    nh = rng.choice([3, 4, 5, 8, 12, 17, 25, 41])
    ns = rng.randint(1, 6)
    nos = rng.randint(1, 3)
    nproc = rng.randint(1, 3)
    ne = rng.randint(1, min(6, ns * (nos + 1)))
    npe = rng.randint(1, min(4, nproc * (nos + 1)))
    return dict(num_hosts=nh, num_services=ns, num_os=nos, num_processes=nproc, num_exploits=ne, num_privescs=npe,
                restrictiveness=rng.randint(1, ns + 1), uniform=rng.random() < 0.5, random_goal=rng.random() < 0.3,
                exploit_probs=rng.choice([1.0, "mixed", None, 0.5]), privesc_probs=rng.choice([1.0, None, 0.7]),
                alpha_H=rng.choice([0.5, 2.0, 5.0]), alpha_V=rng.choice([0.5, 2.0, 3.5]),
                lambda_V=rng.choice([0.5, 1.0, 3.0]), seed=1000 + i, step_limit=rng.choice([None, 100]))


def check_c16(prop, tier, seed):
    import random
    v = Verdict(prop)
    t0 = time.time()
    jobs = [dict(src=("bench_yaml", n)) for n in corpus.YAML_BENCHMARKS]
    seeds = range(seed, seed + (3 if tier == "quick" else 100))
    for n in GEN_BENCH:
        for s in seeds:
            if tier == "thorough" and n in ("pocp-1-gen", "pocp-2-gen", "huge-gen") and s >= seed + 20:
                continue
            jobs.append(dict(src=("bench_gen", n, s)))
        if tier == "quick" and n in ("small-gen", "small-gen-rgoal", "medium-gen", "large-gen"):
            # the small parameter sets are cheap: more seeds
            for s in range(seed + 3, seed + (16 if n != "large-gen" else 9)):
                jobs.append(dict(src=("bench_gen", n, s)))
    rng = random.Random(seed)
    for i in range(24 if tier == "quick" else 300):
        jobs.append(dict(src=("gen", random_gen_params(rng, i + seed * 1000), "rand%d" % i)))
    # one generator object reused: the last scenario of a sequence of benchmark parameter sets (other seeds / sizes)
    from harness.checks_gen import bench_params
    seqn = 30 if tier == "quick" else 200
    for i in range(seqn):
        names_ = ["small-gen", "medium-gen", "small-gen-rgoal", "small-gen", "medium-gen"]
        seq = [bench_params(names_[(i + j) % 5], seed + 5 * i + j) for j in range(4)]
        jobs.append(dict(src=("gen_seq", seq, "reuse%d" % i)))
    for n in corpus.names():
        jobs.append(dict(src=("corpus_dict", n), crosscheck=True))
    with mp.get_context("fork").Pool(12 if tier == "quick" else 14) as pool:
        results = pool.map(c16_job, jobs, chunksize=1)
    states = transitions = events = 0
    solv = 0
    per = []
    skipped = []
    for r in results:
        if r["load_refused"]:
            skipped.append("%s: generator / loader raised (%s) - not a C16 matter" % (r["name"], r["load_refused"][:120]))
            continue
        if r["machinery"]:
            v.machinery.append("%s: %s" % (r["name"], r["machinery"][-500:]))
            continue
        states += r["states"]
        transitions += r["transitions"]
        events += r["events"]
        per.append(dict(scenario=r["name"], solvable=r["solvable"], plan_length=r["plan_len"],
                        spec_states=r["states"], wall_s=round(r.get("wall", 0), 1)))
        corpus_case = r["name"] in corpus.SPECS
        if r["solvable"]:
            solv += 1
        elif not corpus_case:
            v.violation("C16: scenario %s is unsolvable - the greedy closure of the reference semantics never holds "
                        "root on every sensitive host" % r["name"], r.get("replay", "scenario:" + r["name"]))
        for f in r["fails"]:
            if f[0] == "C16" or not corpus_case:
                v.violation("C16: replaying the plan on %s: %s.%s fails at call %d" % (r["name"], f[0], f[1], f[2]),
                            r.get("replay", "?"))
                break
    plans = [r for r in results if r.get("plan")]
    cov = dict(states=states, transitions=transitions, traces_validated_against_impl=len(plans),
               recorded_calls=events, evaluations=len(results), distinct_nontrivial=solv,
               scenarios=len(results), solvable=solv, skipped=skipped,
               rule="per scenario TLC runs the greedy relation of NASimPlan with invariant ~Goal: the counterexample is "
                    "a plan, which is replayed through NASimEnv.step with every draw forced lucky; the recorded run is "
                    "validated by the trace monitor and must end with terminated; distinct_nontrivial = scenarios with "
                    "a replayed plan; on the hand-written corpus the greedy verdict is cross-checked against "
                    "exhaustive reachability of the goal in NASimEnv",
               samples=[dict(scenario=r["name"], plan=r["plan"]) for r in plans[:2]] or [dict(note="no plan")],
               per_scenario=per)
    common.write_evidence(prop, tier, seed, "model_checking", cov, time.time() - t0, len(v.violations))
    return v.finish()


# ------------------------------------------------------------------------------------------------ C20
def topo_family(tier):
    """(name, number of subnets incl. internet, edges, sensitive subnets, hosts per subnet, direct_root)"""
    fam = [
        ("pub_only", 2, [(0, 1)], [1], 2, True),
        ("chain2", 3, [(0, 1), (1, 2)], [2], 1, False),
        ("chain3", 4, [(0, 1), (1, 2), (2, 3)], [3], 1, True),
        ("chain3_two", 4, [(0, 1), (1, 2), (2, 3)], [2, 3], 1, False),
        ("star2", 4, [(0, 1), (1, 2), (1, 3)], [2, 3], 1, True),
        ("star3", 5, [(0, 1), (1, 2), (1, 3), (1, 4)], [2, 3, 4], 1, True),
        ("tree", 5, [(0, 1), (1, 2), (2, 3), (2, 4)], [3, 4], 1, True),
        ("two_public", 4, [(0, 1), (0, 2), (1, 3)], [2, 3], 1, True),
        ("cycle", 4, [(0, 1), (1, 2), (2, 3), (3, 1)], [3], 1, False),
        ("chain_rev", 4, [(0, 1), (1, 3), (3, 2)], [2], 1, True),          # route passes a higher-numbered subnet first
        ("ring6", 5, [(0, 1), (1, 2), (2, 3), (3, 4), (4, 1)], [3], 1, True),
        # hosts listed in an order unrelated to their addresses, a public subnet with two hosts
        ("chain3_shuffled", 4, [(0, 1), (1, 2), (2, 3)], [3], 2, False),
        ("two_public_shuffled", 4, [(0, 1), (0, 2), (1, 3)], [2, 3], 2, True),
        # a USER exploit listed before a ROOT exploit of the same service / OS; fractional values
        ("pub_only_both", 2, [(0, 1)], [1], 2, "both"),
        ("chain2_both", 3, [(0, 1), (1, 2)], [1, 2], 1, "both"),
        ("two_entries_far", 5, [(0, 1), (0, 2), (1, 3), (2, 4)], [3, 4], 1, True),
    ]
    if tier == "thorough":
        import itertools
        for n in (3, 4):
            pairs = [(a, b) for a in range(n + 1) for b in range(a + 1, n + 1)]
            for r in range(n, len(pairs) + 1):
                for es in itertools.combinations(pairs, r):
                    if not any(a == 0 for a, b in es):
                        continue
                    # connected?
                    seen, todo = {0}, [0]
                    while todo:
                        x = todo.pop()
                        for a, b in es:
                            y = b if a == x else a if b == x else None
                            if y is not None and y not in seen:
                                seen.add(y)
                                todo.append(y)
                    if len(seen) != n + 1:
                        continue
                    for k in range(1, n + 1):
                        for sens in itertools.combinations(range(1, n + 1), k):
                            if (hash((es, sens)) % 20) and n == 4:
                                continue
                            fam.append(("enum_n%d_%d" % (n, len(fam)), n + 1, list(es), list(sens), 1, True))
    return fam


def family_spec(name, n, edges, sens, per, direct_root):
    hosts = {}
    frac = name.endswith("_both") or name.endswith("_far")      # fractional sensitive / discovery values
    for s in range(1, n):
        for h in range(per):
            hosts[(s, h)] = corpus.H("linux", ["ssh"], ["tomcat"], value=1 if (s + h) % 2 else 0,
                                     dvalue=0 if name.endswith("_both") else 0.75 if frac else 1)
    if name.endswith("_shuffled"):
        items = list(hosts.items())
        items = items[0:1] + items[2::2] + items[1::2][0:] if len(items) > 2 else items
        hosts = dict(sorted(items, key=lambda kv: (kv[0][1], -kv[0][0])))      # by host id, then subnet descending
    t = corpus.topo(n, edges)
    fw = {}
    for a in range(n):
        for b in range(n):
            if a != b and t[a][b]:
                fw[(a, b)] = ["ssh"]
    return dict(name="c20_" + name, subnets=[per] * (n - 1), topology=t, os=["linux"], services=["ssh"],
                processes=["tomcat"], hosts=hosts,
                exploits=({"e_ssh_user": corpus.E("ssh", None, 1.0, 1, corpus.U),
                           "e_ssh_root": corpus.E("ssh", None, 1.0, 1, corpus.R)} if direct_root == "both" else
                          {"e_ssh": corpus.E("ssh", None, 1.0, 1, corpus.R if direct_root else corpus.U)}),
                privescs={"pe_tomcat": corpus.P("tomcat", "linux", 1.0, 1, corpus.R)},
                fw=fw, sens={(s, 0): ([10.5, 7.25][i % 2] if frac else 100) for i, s in enumerate(sens)},
                scan_costs=(1, 1, 1, 1), step_limit=None, bounds=None, extra=[])


def useful_explore(cs, workdir, timeout=1800):
    tlc.prepare(workdir, render_scenario_tla(cs))
    r = tlc.run(workdir, "NASimPlan", PLAN_CFG % ("useful", "INVARIANT GoalReport"), workers=1, timeout=timeout, heap="6g")
    if r.errors or not r.completed:
        raise tlc.TLCError("NASimPlan (useful) failed:\n" + r.tail(30))
    goals = []
    for m in re.finditer(r'<<\s*"GOAL",\s*(\d+),\s*(-?\d+),\s*<<([\d,\s]*)>>\s*>>', r.out):
        goals.append((int(m.group(1)), int(m.group(2)), [int(x) for x in m.group(3).replace("\n", " ").split(",") if x.strip()]))
    return goals, r


def kf_permwalk(cs, min_comp, max_score, workdir):
    tlc.prepare(workdir, render_scenario_tla(cs))
    mod = ("---- MODULE HopKF ----\nEXTENDS HopWalk\nASSUME PrintT(<<\"KFSIG\", KF_PermutationWalk(%d, %d), PermWalk>>)\n====\n"
           % (min_comp, max_score))
    with open(os.path.join(workdir, "HopKF.tla"), "w") as fh:
        fh.write(mod)
    r = tlc.run(workdir, "HopKF", "SPECIFICATION DummySpec\n", workers=1, timeout=600)
    m = re.search(r'<<\s*"KFSIG",\s*(TRUE|FALSE),\s*(\d+)\s*>>', r.out)
    if not m:
        raise tlc.TLCError("HopKF evaluation failed:\n" + r.tail(20))
    return m.group(1) == "TRUE", int(m.group(2))


def c20_job(job):
    t0 = time.time()
    res = dict(name=job["name"], machinery=None, fails=[], states=0, transitions=0, events=0, goals=0)
    wd = tlc.scratch_dir()
    try:
        sys.path[:0] = [p for p in (corpus.REPO,) if p not in sys.path]
        from harness.rec import Recorder
        from nasim.envs import NASimEnv
        sp = family_spec(*job["family"])
        # decoy built and queried first in this process: same subnet sizes and sensitive hosts, but a path on
        # which the sensitive subnets come last (the longest route) - a process-global cache of the advertised
        # numbers that ignores the wiring would leak into the scenario under test
        name_, n_, edges_, sens_, per_, dr_ = job["family"]
        order_ = [x for x in range(1, n_) if x not in sens_] + list(sens_)
        dec = family_spec(name_, n_, [(0, order_[0])] + list(zip(order_, order_[1:])), sens_, per_, dr_)
        try:
            denv = NASimEnv(corpus.build_dict_scenario(dec), fully_obs=True, flat_actions=True, flat_obs=True)
            denv.get_minimum_hops()
            denv.get_score_upper_bound()
            denv.step(0)
            del denv
        except Exception:
            pass
        scn = corpus.build_dict_scenario(sp)
        cs = corpus.cs_of(sp)
        env0 = NASimEnv(scn, fully_obs=True, flat_actions=True, flat_obs=True)
        ub = milli(env0.get_score_upper_bound())
        hops = int(env0.get_minimum_hops())
        cs["adv_ub"], cs["adv_hops"] = ub, hops
        res.update(adv_ub=ub, adv_hops=hops)
        pwd = os.path.join(wd, "plan")
        os.makedirs(pwd)
        goals, r = useful_explore(cs, pwd)
        res.update(states=r.distinct, transitions=r.generated, goals=len(goals))
        if not goals:
            res["note"] = "goal unreachable"
            return res
        best = max(goals, key=lambda g: g[1])
        fewest = min(goals, key=lambda g: g[0])
        res.update(max_score=best[1], min_comp=fewest[0])
        trace = os.path.join(wd, "trace.ndjson")
        rec = Recorder(trace, len(cs["hosts"]), cs=cs)
        for eid, (nc, sc, hist) in enumerate([best, fewest], start=1):
            rec.create(eid, scn, eid == 2, True, True)
            rec.reset(eid)
            total = 0
            ev = None
            for k in hist:
                a = pyref.flat_action(cs, k)
                ev = rec.step(eid, ("int", k - 1), pyref.draw_for(a["prob"], True, 0))
                if ev.get("ev") == "step":
                    total += ev["reward"]
            e = rec.envs[eid]
            rec.emit(dict(ev="episode_end", env=eid, term=bool(ev and ev.get("ev") == "step" and ev["term"]),
                          total=int(total), ub=milli(e.get_score_upper_bound()), hops=int(e.get_minimum_hops()),
                          fwfree=True, spec_total=sc, spec_ncomp=nc))
        # code => spec: seeded random goal-seeking episodes of the real environment (any action, any order,
        # repeated actions included), each closed by an episode_end event
        import random as _r
        rng = _r.Random(job.get("seed", 0))
        n_act = pyref.n_actions(cs)
        rec.create(3, scn, False, True, True)
        episodes = 0
        for ep in range(job.get("episodes", 25)):
            rec.reset(3)
            total, ev = 0, None
            for t_ in range(70):
                k = rng.randrange(n_act) + 1
                a = pyref.flat_action(cs, k)
                ev = rec.step(3, ("int", k - 1), pyref.draw_for(a["prob"], True, 0))
                if ev.get("ev") != "step":
                    break
                total += ev["reward"]
                if ev["term"]:
                    break
            if ev is not None and ev.get("ev") == "step" and ev["term"]:
                episodes += 1
                e = rec.envs[3]
                rec.emit(dict(ev="episode_end", env=3, term=True, total=int(total),
                              ub=milli(e.get_score_upper_bound()), hops=int(e.get_minimum_hops()), fwfree=True,
                              spec_total=0, spec_ncomp=0))
        res["random_goal_episodes"] = episodes
        rec.close()
        res["events"] = rec.i
        mon = os.path.join(wd, "mon")
        os.makedirs(mon)
        m = tlc.run_monitor(render_scenario_tla(cs), trace, workdir=mon)
        res["fails"] = [f for f in m.fails() if f[0] not in ("DRIFT", "BEYOND")]
        res["drift"] = sorted(set(f[1] for f in m.fails() if f[0] == "DRIFT"))
        # the largest total / smallest host count actually seen on the real environment
        for line in open(trace):
            if '"episode_end"' in line:
                ee = json.loads(line)
                if ee["term"]:
                    res["max_score"] = max(res["max_score"], ee["total"])
        if any(f[0] == "C20" for f in res["fails"]):
            kwd = os.path.join(wd, "kf")
            os.makedirs(kwd)
            sig, pw = kf_permwalk(cs, fewest[0], res["max_score"], kwd)
            res["kf_permwalk"] = sig
            res["permwalk"] = pw
            os.makedirs(common.REPLAY_DIR, exist_ok=True)
            base = os.path.join(common.REPLAY_DIR, "C20-%s" % cs["name"])
            dynamic.keep_replay(trace, render_scenario_tla(cs), res["fails"], base)
            res["replay"] = base + ".ndjson"
    except tlc.TLCError as ex:
        res["machinery"] = str(ex)[-1500:]
    except Exception:
        res["machinery"] = traceback.format_exc()[-1500:]
    finally:
        shutil.rmtree(wd, ignore_errors=True)
        res["wall"] = time.time() - t0
    return res


def check_c20(prop, tier, seed):
    v = Verdict(prop)
    t0 = time.time()
    jobs = [dict(name=f[0], family=f) for f in topo_family(tier)]
    with mp.get_context("fork").Pool(12) as pool:
        results = pool.map(c20_job, jobs, chunksize=1)
    kfs = {k["signature"]: k for k in common.open_findings(prop)}
    states = transitions = events = 0
    per = []
    kf_instances = []
    for r in results:
        if r["machinery"]:
            v.machinery.append("%s: %s" % (r["name"], r["machinery"][-500:]))
            continue
        states += r["states"]
        transitions += r["transitions"]
        events += r["events"]
        per.append({k: r.get(k) for k in ("name", "adv_ub", "adv_hops", "max_score", "min_comp", "goals", "states",
                                          "kf_permwalk", "permwalk")})
        c20 = [f for f in r["fails"] if f[0] == "C20"]
        other = [f for f in r["fails"] if f[0] != "C20"]
        if c20:
            if r.get("kf_permwalk") and "KF_PermutationWalk" in kfs:
                kf_instances.append("%s (advertised hops %s, hosts needed %s, best total %s vs bound %s)" % (
                    r["name"], r["adv_hops"], r["min_comp"], r["max_score"] / 1000.0, r["adv_ub"] / 1000.0))
            else:
                v.violation("C20: %s on topology %s: advertised bound %s / hops %s, but a goal-reaching episode of the "
                            "real environment totals %s with %s compromised hosts" % (
                                c20[0][1], r["name"], r["adv_ub"] / 1000.0, r["adv_hops"], r["max_score"] / 1000.0,
                                r["min_comp"]), r.get("replay", "?"))
        if other:
            v.violation("C20: replay on %s: %s.%s fails at call %d" % (r["name"], other[0][0], other[0][1], other[0][2]),
                        r.get("replay", "?"))
    if kf_instances:
        v.known.append("%s [seen on: %s]" % (kfs["KF_PermutationWalk"]["what"], "; ".join(kf_instances[:6])
                                             + (" ... %d topologies" % len(kf_instances) if len(kf_instances) > 6 else "")))
    cov = dict(states=states, transitions=transitions, traces_validated_against_impl=2 * len(per),
               recorded_calls=events, evaluations=len(results), distinct_nontrivial=len(per), exhaustive=(tier == "thorough"),
               rule="for every topology of the family (chains, stars, trees, cycles, several public subnets; thorough: "
                    "every connected topology over <= 4 subnets x every sensitive set) a real scenario in the cost / "
                    "value domain is built; TLC explores all state-changing successful actions with the total in the "
                    "state and reports every goal state; the best-scoring and the fewest-hosts histories are replayed on "
                    "the real environment and the monitor compares the measured total / decoded host count with what "
                    "the environment advertises; distinct_nontrivial = topologies",
               samples=per[:3], per_topology=per, known_findings_matched=len(v.known))
    common.write_evidence(prop, tier, seed, "model_checking", cov, time.time() - t0, len(v.violations))
    return v.finish()


def replay_c16(prop, path):
    """path = saved Scenario.tla of an unsolvable scenario (re-run the planner) or a saved trace (re-run the monitor)"""
    if path.endswith(".tla"):
        wd = tlc.scratch_dir()
        try:
            with open(path) as fh:
                tla = fh.read()
            tlc.prepare(wd, tla)
            r = tlc.run(wd, "NASimPlan", PLAN_CFG % ("greedy", "INVARIANT NoPlan"), workers=1, timeout=3600, heap="4g")
            if "Invariant NoPlan is violated" in r.out:
                print("OK property=C16 (replay): a plan exists")
                return 0
            print("no counterexample to ~Goal: the scenario is unsolvable")
            print("VIOLATION property=C16 replay=%s" % path)
            return 1
        finally:
            shutil.rmtree(wd, ignore_errors=True)
    from harness.main import replay_dynamic
    return replay_dynamic(prop, path)
