"""C16 (generated and shipped scenarios are solvable) and C20 (advertised score upper bound) with spec/NASimPlan.tla."""
import collections
import json
import multiprocessing as mp
import os
import re
import shutil
import sys
import time
import traceback

from harness import common, tlc, corpus, dynamic, pyref
from harness.common import Verdict
from harness.export import render_scenario_tla, milli

PLAN_CFG = """SPECIFICATION Spec
CONSTANT PlanMode = "%s"
%s
CHECK_DEADLOCK FALSE
"""


def greedy_plan(cs, workdir, timeout=3600):
    """TLC on the greedy relation with invariant NoPlan -> (solvable?, plan [1-based action ids], tlc.Result)"""
    tlc.prepare(workdir, render_scenario_tla(cs))
    r = tlc.run(workdir, "NASimPlan", PLAN_CFG % ("greedy", "INVARIANT NoPlan"), workers=1, timeout=timeout, heap="4g")
    violated = "Invariant NoPlan is violated" in r.out
    # the counterexample: the value of `last` in the successive states of the error trace
    i = r.out.find("Invariant NoPlan is violated")
    plan = [int(m.group(1)) for m in re.finditer(r"/\\ last = (\d+)", r.out[i:])] if i >= 0 else []
    plan = [k for k in plan if k > 0]
    if not violated and not r.completed:
        raise tlc.TLCError("NASimPlan did not complete:\n" + r.tail(30))
    return violated, plan, r


def exhaustive_goal_reachable(cs, workdir):
    """spec-level cross-check of the greedy verdict: is a goal state reachable in the full model?"""
    tlc.prepare(workdir, render_scenario_tla(cs))
    cfg = ("SPECIFICATION Spec\nCONSTANTS\n StepCap <- Untracked\n DumpEdges = FALSE\nVIEW view\n"
           "INVARIANT GoalNeverReached\nCHECK_DEADLOCK FALSE\n")
    r = tlc.run(workdir, "NASimEnv", cfg, workers=4, timeout=1800, heap="4g")
    return "Invariant GoalNeverReached is violated" in r.out, r


def c16_job(job):
    t0 = time.time()
    res = dict(name=str(job["src"]), machinery=None, solvable=None, plan_len=0, fails=[], events=0, states=0,
               transitions=0, load_refused=None)
    wd = tlc.scratch_dir()
    try:
        sys.path[:0] = [p for p in (corpus.REPO,) if p not in sys.path]
        from harness.rec import Recorder
        try:
            scn, cs = dynamic.load_source(job["src"], wd)
        except Exception as ex:
            res["load_refused"] = "%s: %s" % (type(ex).__name__, str(ex)[:200])
            return res
        res["name"] = cs["name"]
        pwd = os.path.join(wd, "plan")
        os.makedirs(pwd)
        solvable, plan, r = greedy_plan(cs, pwd)
        res.update(solvable=solvable, plan_len=len(plan), states=r.distinct, transitions=r.generated, plan=plan[:60])
        if job.get("crosscheck"):
            xwd = os.path.join(wd, "x")
            os.makedirs(xwd)
            reach, rx = exhaustive_goal_reachable(cs, xwd)
            res["exhaustive_reachable"] = reach
            res["states"] += rx.distinct
            res["transitions"] += rx.generated
            if reach != solvable:
                res["machinery"] = "greedy verdict (%s) differs from exhaustive reachability (%s)" % (solvable, reach)
                return res
        if not solvable:
            return res
        trace = os.path.join(wd, "trace.ndjson")
        rec = Recorder(trace, len(cs["hosts"]))
        rec.create(1, scn, False, True, True)
        rec.reset(1)
        ev = None
        for k in plan:
            a = pyref.flat_action(cs, k)
            ev = rec.step(1, ("int", k - 1), pyref.draw_for(a["prob"], True, 0))
        env = rec.envs[1]
        rec.emit(dict(ev="plan_end", env=1, term=bool(ev and ev.get("ev") == "step" and ev["term"]),
                      goal=bool(env.goal_reached()), n=len(plan)))
        rec.close()
        res["events"] = rec.i
        mon = os.path.join(wd, "mon")
        os.makedirs(mon)
        m = tlc.run_monitor(render_scenario_tla(cs), trace, workdir=mon)
        res["fails"] = [f for f in m.fails() if f[0] != "DRIFT"]
        res["drift"] = len([f for f in m.fails() if f[0] == "DRIFT"])
        if res["fails"]:
            os.makedirs(common.REPLAY_DIR, exist_ok=True)
            base = os.path.join(common.REPLAY_DIR, "C16-%s" % cs["name"])
            dynamic.keep_replay(trace, render_scenario_tla(cs), res["fails"], base)
            res["replay"] = base + ".ndjson"
    except tlc.TLCError as ex:
        res["machinery"] = str(ex)[-2000:]
    except Exception:
        res["machinery"] = traceback.format_exc()[-2000:]
    finally:
        shutil.rmtree(wd, ignore_errors=True)
        res["wall"] = time.time() - t0
    return res


GEN_BENCH = ["tiny-gen", "tiny-gen-rgoal", "small-gen", "small-gen-rgoal", "medium-gen", "large-gen", "huge-gen",
             "pocp-1-gen", "pocp-2-gen"]


def random_gen_params(rng, i):
    nh = rng.choice([3, 4, 5, 8, 12, 17, 25, 41])
    ns = rng.randint(1, 6)
    nos = rng.randint(1, 3)
    nproc = rng.randint(1, 3)
    ne = rng.randint(1, min(6, ns * (nos + 1)))
    npe = rng.randint(1, min(4, nproc * (nos + 1)))
    return dict(num_hosts=nh, num_services=ns, num_os=nos, num_processes=nproc, num_exploits=ne, num_privescs=npe,
                restrictiveness=rng.randint(1, ns + 1), uniform=rng.random() < 0.5, random_goal=rng.random() < 0.3,
                exploit_probs=rng.choice([1.0, "mixed", None, 0.5]), privesc_probs=rng.choice([1.0, None, 0.7]),
                alpha_H=rng.choice([0.5, 2.0, 5.0]), alpha_V=rng.choice([0.5, 2.0, 3.5]),
                lambda_V=rng.choice([0.5, 1.0, 3.0]), seed=1000 + i, step_limit=rng.choice([None, 100]))


def check_c16(prop, tier, seed):
    import random
    v = Verdict(prop)
    t0 = time.time()
    jobs = [dict(src=("bench_yaml", n)) for n in corpus.YAML_BENCHMARKS]
    seeds = range(seed, seed + (3 if tier == "quick" else 100))
    for n in GEN_BENCH:
        for s in seeds:
            if tier == "thorough" and n in ("pocp-1-gen", "pocp-2-gen", "huge-gen") and s >= seed + 20:
                continue
            jobs.append(dict(src=("bench_gen", n, s)))
    rng = random.Random(seed)
    for i in range(12 if tier == "quick" else 300):
        jobs.append(dict(src=("gen", random_gen_params(rng, i + seed * 1000), "rand%d" % i)))
    for n in corpus.names():
        jobs.append(dict(src=("corpus_dict", n), crosscheck=True))
    with mp.get_context("fork").Pool(12 if tier == "quick" else 14) as pool:
        results = pool.map(c16_job, jobs, chunksize=1)
    states = transitions = events = 0
    solv = 0
    per = []
    skipped = []
    for r in results:
        if r["load_refused"]:
            skipped.append("%s: generator / loader raised (%s) - not a C16 matter" % (r["name"], r["load_refused"][:120]))
            continue
        if r["machinery"]:
            v.machinery.append("%s: %s" % (r["name"], r["machinery"][-500:]))
            continue
        states += r["states"]
        transitions += r["transitions"]
        events += r["events"]
        per.append(dict(scenario=r["name"], solvable=r["solvable"], plan_length=r["plan_len"],
                        spec_states=r["states"], wall_s=round(r.get("wall", 0), 1)))
        corpus_case = r["name"] in corpus.SPECS
        if r["solvable"]:
            solv += 1
        elif not corpus_case:
            v.violation("C16: scenario %s is unsolvable - the greedy closure of the reference semantics never holds "
                        "root on every sensitive host" % r["name"], "scenario:" + r["name"])
        for f in r["fails"]:
            if f[0] == "C16" or not corpus_case:
                v.violation("C16: replaying the plan on %s: %s.%s fails at call %d" % (r["name"], f[0], f[1], f[2]),
                            r.get("replay", "?"))
                break
    plans = [r for r in results if r.get("plan")]
    cov = dict(states=states, transitions=transitions, traces_validated_against_impl=len(plans),
               recorded_calls=events, evaluations=len(results), distinct_nontrivial=solv,
               scenarios=len(results), solvable=solv, skipped=skipped,
               rule="per scenario TLC runs the greedy relation of NASimPlan with invariant ~Goal: the counterexample is "
                    "a plan, which is replayed through NASimEnv.step with every draw forced lucky; the recorded run is "
                    "validated by the trace monitor and must end with terminated; distinct_nontrivial = scenarios with "
                    "a replayed plan; on the hand-written corpus the greedy verdict is cross-checked against "
                    "exhaustive reachability of the goal in NASimEnv",
               samples=[dict(scenario=r["name"], plan=r["plan"]) for r in plans[:2]] or [dict(note="no plan")],
               per_scenario=per)
    common.write_evidence(prop, tier, seed, "model_checking", cov, time.time() - t0, len(v.violations))
    return v.finish()
