"""The dynamic pipeline shared by C01-C13: per scenario, (a) TLC explores NASimEnv exhaustively and
every transition is replayed into the real environment, and / or (b) recorded runs of the real
environment (random / biased / brute-force drivers) are validated by the trace monitor."""
import collections
import json
import multiprocessing as mp
import os
import random
import shutil
import sys
import time
import traceback

from harness import tlc, replay, corpus, yamlread, pyref
from harness.export import render_scenario_tla, cs_from_scenario, numeric_ok

REPLAY_DIR = os.path.join(os.environ.get("VERIF_EVIDENCE", os.path.join(os.path.dirname(os.path.dirname(os.path.abspath(__file__))), "evidence")), "replays")


def load_source(src, workdir):
    """src -> (Scenario object, cs).  cs comes from the definition (dict scenarios), from an
    independent reading of the file (YAML) or from the generated scenario's definition data."""
    import nasim
    kind = src[0]
    if kind == "corpus_dict":
        sp = corpus.SPECS[src[1]]
        return corpus.build_dict_scenario(sp), corpus.cs_of(sp)
    if kind == "corpus_yaml":
        sp = corpus.yaml_variant(corpus.SPECS[src[1]])
        path = corpus.write_yaml(sp, os.path.join(workdir, sp["name"] + ".yaml"))
        cs = yamlread.cs_from_yaml(path, sp["name"])
        cs["extra_actions"] = corpus.cs_of(sp)["extra_actions"]
        return nasim.load_scenario(path), cs
    if kind == "bench_yaml":
        path = corpus.bench_yaml(src[1])
        return nasim.load_scenario(path, name=src[1]), yamlread.cs_from_yaml(path, src[1])
    if kind == "yaml_file":
        return nasim.load_scenario(src[1]), yamlread.cs_from_yaml(src[1])
    if kind == "bench_gen":
        from harness import gen
        scn, _ = gen.make_benchmark(src[1], src[2])
        cs = cs_from_scenario(scn)
        cs["name"] = "%s-s%d" % (src[1], src[2])
        return scn, cs
    if kind == "gen":
        from harness import gen
        scn, _ = gen.generate(src[1])
        cs = cs_from_scenario(scn)
        cs["name"] = src[2]
        return scn, cs
    if kind == "gen_seq":
        # ONE generator object asked for several scenarios in a row; the last one is the scenario under test
        from harness import gen
        from nasim.scenarios.generator import ScenarioGenerator
        g = ScenarioGenerator()
        scn = None
        with gen.counted_rng(gen.DRAW_BOUND * len(src[1])):
            for p_ in src[1]:
                scn = g.generate(**p_)
        cs = cs_from_scenario(scn)
        cs["name"] = src[2]
        return scn, cs
    if kind == "gym":
        name, _modes = gym_id_parts(src[1])
        path = corpus.bench_yaml(name)
        return nasim.load_scenario(path, name=name), yamlread.cs_from_yaml(path, name + ":" + src[1])
    raise ValueError(src)


def gym_id_parts(env_id):
    """'TinySmallPO2DVA-v0' -> ('tiny-small', (fully_obs, flat_actions, flat_obs)) by the documented naming rule"""
    base = env_id.split("-v")[0]
    va = base.endswith("VA")
    if va:
        base = base[:-2]
    d2 = base.endswith("2D")
    if d2:
        base = base[:-2]
    po = base.endswith("PO")
    if po:
        base = base[:-2]
    for n in corpus.YAML_BENCHMARKS:
        if "".join(g.capitalize() for g in n.split("-")) == base:
            return n, (not po, not va, not d2)
    raise ValueError(env_id)


def gym_ctor(env_id):
    def ctor(scenario, fully_obs=False, flat_actions=True, flat_obs=True):
        import gymnasium as gym
        import nasim   # noqa: F401  (registers the ids)
        return gym.make(env_id).unwrapped
    return ctor


def drive_random(cs, scn, rec, seed, nsteps, modes, genstep_frac=0.3, reset_frac=0.01, bias=0.7, lockstep=False,
                 extras=True, decode_limit=400, readable=True, record_draws=False, ctor=None):
    """seeded random / discovery-biased driver over real step() calls; with lockstep every environment takes
    the same abstract action with the same draw (one group per step)"""
    rng = random.Random(seed)
    if record_draws:
        import numpy as _np
        _np.random.seed(seed % (2 ** 31))
    probs = pyref.all_probs(cs)
    n = pyref.n_actions(cs)
    ph = pyref.per_host(cs)
    eids = []
    for i, (fo, fa, f1) in enumerate(modes):
        rec.create(i + 1, scn, fo, fa, f1, ctor=ctor)
        eids.append(i + 1)
    flat_envs = [e for j, e in enumerate(eids) if modes[j][1]]
    param_envs = [e for j, e in enumerate(eids) if not modes[j][1]]
    if extras:
        for e in eids[:2]:
            rec.actions(e)
        if param_envs:
            size = 1
            for x in rec.envs[param_envs[0]].action_space.nvec:
                size *= int(x)
            rec.decode_all(param_envs[0], limit=None if size <= 10000 else decode_limit)
    for e in eids:
        rec.envs[e].action_space.seed(seed + e)
    if extras and param_envs:
        # members of the parameterised space in a systematic way (C10: every member is accepted by step): every
        # action type x every value of the subnet parameter the space advertises x the first and last host value
        try:
            nv = [int(x) for x in rec.envs[param_envs[0]].action_space.nvec]
            members = [[ty, sn, hv, 0, 0, 0] for ty in range(nv[0]) for sn in range(nv[1]) for hv in sorted({0, nv[2] - 1})]
        except Exception:      # noqa
            members = []
        for ci, vec in enumerate(members[:150]):
            rec.step(param_envs[0], (replay.VEC_ENCS[ci % 3], vec), 0.3)
        rec.reset(param_envs[0])
    hosts = [tuple(h) for h in cs["hosts"]]
    counter = 0
    first_draws = {}          # record mode: first recorded draw of every episode, per environment
    fresh = {e: True for e in eids}
    last_k = {}
    if record_draws:
        for e in eids:
            rec.reset(e, seed=seed + e)      # the Gymnasium way of seeding, once; later resets are plain
    for t in range(nsteps):
        j = rng.randrange(len(eids))
        e = eids[j]
        env = rec.envs[e]
        if rng.random() < bias:
            # input selection only: prefer targets the implementation says are discovered
            st = env.current_state
            cand = [i for i, h in enumerate(hosts) if st.host_discovered(h)]
            hi = rng.choice(cand) if cand else rng.randrange(len(hosts))
            k = hi * ph + rng.randrange(ph) + 1
        else:
            k = rng.randrange(n) + 1
        if last_k.get(e) and rng.random() < 0.12:
            k = last_k[e]            # the very same action again
        last_k[e] = k
        u = pyref.safe_random_draw(rng, probs)
        if rng.random() < 0.6:
            u = u * 0.3          # lean towards the lucky side so that deep states are reached
        if record_draws:
            # the draw is NOT scripted: numpy's own generator draws and the value is only recorded (a draw closer
            # than 1e-5 to a probability of the scenario would be dropped: none in 10^5 steps is the expectation)
            u = None
        counter += 1
        vec = encode_param(cs, k, wrap=(rng.random() < 0.3))

        def spec_for_env(jj, c):
            if modes[jj][1]:
                return (replay.FLAT_ENCS[c % 3], k - 1)
            return (replay.VEC_ENCS[c % 3], vec)

        if lockstep:
            evs = []
            if rng.random() < genstep_frac:
                for jj, ee in enumerate(eids):
                    rec.genstep(ee, None, spec_for_env(jj, counter + jj), u, grp=t + 1)
            for jj, ee in enumerate(eids):
                evs.append(rec.step(ee, spec_for_env(jj, counter + jj), u, grp=t + 1))
            ev = evs[0]
            if rng.random() < reset_frac or (ev.get("ev") == "step" and (ev["term"] and rng.random() < 0.5)):
                for ee in eids:
                    rec.reset(ee)
            continue
        if extras and rng.random() < 0.04:
            ev = rec.sample_step(e, u)
        else:
            sp = spec_for_env(j, counter)
            if rng.random() < genstep_frac:
                gev, _ = rec.genstep(e, None, sp, u)
                if record_draws and gev.get("ev") == "genstep" and gev["ndraw"] > 0 and fresh.get(e):
                    first_draws.setdefault(e, []).append(gev["u"])
                    fresh[e] = False
            ev = rec.step(e, sp, u)
        if record_draws and ev.get("ev") == "step" and ev["ndraw"] > 0 and fresh.get(e):
            first_draws.setdefault(e, []).append(ev["u"])
            fresh[e] = False
        if rng.random() < 0.05:
            rec.goal(e, None)
        if extras and rng.random() < 0.01:
            # documented as leaving the environment alone: asked for in the middle of an episode
            rec.init_states(e)
        if extras and rng.random() < 0.02:
            if flat_envs:
                rec.mask(flat_envs[0])
            if readable:
                rec.readable_state(e, cs)
                rec.readable_obs(e, cs, env.last_obs.numpy_flat() if env.flat_obs else env.last_obs.numpy())
        if rng.random() < (0.05 if record_draws else reset_frac) \
                or (ev.get("ev") == "step" and (ev["term"] and rng.random() < 0.5)):
            rec.reset(e)
            fresh[e] = True
    if extras and not record_draws and not lockstep:
        # copy.deepcopy(environment) in the middle of an episode; parent and copy go on, interleaved
        for (e0, e2) in [(eids[0], len(eids) + 1)]:
            ev = rec.fork(e0, e2)
            if ev.get("ev") != "fork":
                continue
            jm = 0
            for t in range(40):
                ee = (e0, e2)[t % 2]
                k = rng.randrange(n) + 1
                u = pyref.safe_random_draw(rng, probs) * (0.3 if rng.random() < 0.6 else 1.0)
                sp = (replay.FLAT_ENCS[t % 3], k - 1) if modes[jm][1] else (replay.VEC_ENCS[t % 3], encode_param(cs, k))
                rec.step(ee, sp, u)
            rec.reset(e2)
            rec.step(e2, (replay.FLAT_ENCS[0], 0) if modes[jm][1] else (replay.VEC_ENCS[0], encode_param(cs, 1)), 0.3)
    if record_draws:
        for e, us in first_draws.items():
            rec.emit(dict(ev="freq", env=e, episodes=len(us), distinct_first_draws=len(set(us))))
    return dict(steps=nsteps)


def drive_sweep(cs, scn, rec, seed, modes, max_steps=2500, after_goal=120):
    """goal-seeking driver for LARGE scenarios (input selection only; the monitor judges): every action on a host the
    implementation says is discovered, in index order, with a lucky draw, sweep after sweep until the terminal flag;
    goal queries on the states met on the way (held State objects included, after the goal too); then the same
    actions again after the goal, a reset, and a second shorter episode.  One environment per mode."""
    rng = random.Random(seed)
    hosts = [tuple(h) for h in cs["hosts"]]
    ph = pyref.per_host(cs)
    n = pyref.n_actions(cs)
    out = dict(goals=0, steps=0)
    for i, (fo, fa, f1) in enumerate(modes):
        e = i + 1
        rec.create(e, scn, fo, fa, f1)
        env = rec.envs[e]
        for episode, budget in enumerate((max_steps, max_steps // 2)):
            # the second episode goes through the hosts in the opposite order
            hosts_order = list(enumerate(hosts)) if episode == 0 else list(enumerate(hosts))[::-1]
            rec.reset(e)
            held, done, used = [], False, 0
            while not done and used < budget:
                progressed = False
                for hi, h in hosts_order:
                    if done or used >= budget:
                        break
                    if not env.current_state.host_discovered(h):
                        continue
                    for j in range(ph):
                        k = hi * ph + j + 1
                        a = pyref.flat_action(cs, k)
                        u = pyref.draw_for(a["prob"], rng.random() < 0.9, rng.randrange(2))
                        sp = ("int", k - 1) if fa else ("list", encode_param(cs, k))
                        if rng.random() < 0.1:
                            rec.genstep(e, None, sp, u)
                        elif held and rng.random() < 0.08:
                            # a look-ahead from the current state, then one from ANOTHER state, right before the real
                            # step with the same action and draw
                            rec.genstep(e, None, sp, u)
                            rec.genstep(e, rng.choice(held), sp, u)
                        ev = rec.step(e, sp, u)
                        used += 1
                        if ev.get("ev") != "step":
                            continue
                        progressed = progressed or bool(ev["post_rows"])
                        if ev["post_rows"] and len(held) < 6 and rng.random() < 0.3:
                            held.append(rec.hold(env.current_state))
                        if rng.random() < 0.03:
                            rec.goal(e, None)
                        if ev["term"]:
                            done = True
                            break
                if not progressed:
                    break
            out["steps"] += used
            rec.goal(e, None)
            for st in held:
                rec.goal(e, st)
            if done:
                out["goals"] += 1
                # the same actions again after the goal: nothing may be lost, nothing paid twice
                for t_ in range(after_goal):
                    k = rng.randrange(n) + 1
                    a = pyref.flat_action(cs, k)
                    sp = ("int", k - 1) if fa else ("list", encode_param(cs, k))
                    rec.step(e, sp, pyref.draw_for(a["prob"], rng.random() < 0.7, 0))
                rec.goal(e, None)
                for st in held[:3]:
                    rec.genstep(e, st, ("int", rng.randrange(n)) if fa else ("list", encode_param(cs, rng.randrange(n) + 1)),
                                0.3)
        # single-entry episodes: ONE public host (the last rows first) is compromised, the network is scanned from it
        # and every host it discovers is attacked through it alone
        try:
            pub = [(hi, h) for hi, h in enumerate(hosts) if env.network.subnet_public(h[0])][::-1]
        except Exception:      # noqa
            pub = []
        # first the two last public hosts together, then each alone, then the first public host alone
        entries = ([pub[:2]] + [[x] for x in pub[:2]] + [pub[:1], pub[-1:]]) if len(pub) > 1 else [pub[:1]]
        for group in entries:
            rec.reset(e)
            used = 0
            g = group[-1][1] if group else None
            for (gi, g_) in group:
                for j in list(range(ph)) * 2:           # everything on the entry host, in index order, twice
                    k = gi * ph + j + 1
                    a = pyref.flat_action(cs, k)
                    sp = ("int", k - 1) if fa else ("list", encode_param(cs, k))
                    rec.step(e, sp, pyref.draw_for(a["prob"], True, j % 2))
                    used += 1
            ents = {tuple(x[1]) for x in group}
            # hosts whose own firewall names the entry host are attacked first (input selection only)
            hd = cs.get("hdeny", {})
            order2 = sorted(enumerate(hosts), key=lambda x: (0 if ents & {tuple(k_) for k_ in hd.get(x[1], {})} else 1,
                                                             x[0]))
            for hi, h in order2:
                if used > max_steps // 4:
                    break
                if tuple(h) in ents or not env.current_state.host_discovered(h) or env.network.subnet_public(h[0]):
                    continue
                for j in range(4, ph):               # exploits and escalations through the single entry
                    k = hi * ph + j + 1
                    a = pyref.flat_action(cs, k)
                    sp = ("int", k - 1) if fa else ("list", encode_param(cs, k))
                    rec.step(e, sp, pyref.draw_for(a["prob"], True, 0))
                    used += 1
            out["steps"] += used
    return out


def encode_param(cs, k, wrap=False):
    """input selection: a parameter vector for flat action k; with wrap the host parameter is given as
    host + subnet size when the space allows it (the documented wrapping modulo the subnet size)"""
    a = pyref.flat_action(cs, k)
    ty = {"exploit": 0, "privesc": 1, "service_scan": 2, "os_scan": 3, "subnet_scan": 4, "process_scan": 5}[a["kind"]]
    os_i = 0 if a["os"] == "<none>" else cs["os"].index(a["os"]) + 1
    srv_i = 0 if a["srv"] == "<none>" else cs["services"].index(a["srv"])
    proc_i = 0 if a["proc"] == "<none>" else cs["processes"].index(a["proc"])
    h = a["target"][1]
    size = cs["subnets"][a["target"][0]]
    if wrap and h + size < max(cs["subnets"]):
        h = h + size
    return [ty, a["target"][0] - 1, h, os_i, srv_i, proc_i]


def run_job(job):
    """one scenario: returns a result dict (never raises; machinery failures are reported)"""
    t0 = time.time()
    res = dict(job=job, fails=[], events=0, states=0, transitions=0, edges_replayed=0, hist={}, spec_errors=[],
               machinery=None, counts={}, name=str(job.get("src")))
    wd = tlc.scratch_dir()
    try:
        sys.path[:0] = [p for p in (corpus.REPO,) if p not in sys.path]
        from harness.rec import Recorder
        try:
            scn, cs = load_source(job["src"], wd)
        except Exception as ex:
            if job["src"][0] in ("corpus_yaml", "bench_yaml", "yaml_file") and "loader.py" in traceback.format_exc():
                # a document of the documented format that the loader refuses: a C17 matter
                res["load_refused"] = "%s: %s" % (type(ex).__name__, ex)
                return res
            raise
        res["name"] = cs["name"]
        if not numeric_ok(cs):
            res["machinery"] = "scenario outside the numeric domain"
            return res
        tla = render_scenario_tla(cs)
        if job.get("decoy", True) and len(cs["hosts"]) <= 20:
            corpus.run_decoys(cs)
            corpus.run_numbers_decoy(scn)
        trace = os.path.join(wd, "trace.ndjson")
        rec = Recorder(trace, len(cs["hosts"]), cs=cs)
        if job.get("spec_only"):
            # design level only: exhaustive TLC run of NASimEnv (all clauses on every transition), no replay
            wd2 = os.path.join(wd, "explore")
            os.makedirs(wd2)
            r = replay.explore(cs, wd2, dump=False, workers=job.get("workers", 8), timeout=job.get("timeout", 7200))
            res["states"], res["transitions"] = r.distinct, r.generated
            if r.errors or not r.completed:
                res["machinery"] = "NASimEnv exploration failed: " + r.tail(30)
            rec.close()
            return res
        if job.get("exhaustive"):
            wd2 = os.path.join(wd, "explore")
            os.makedirs(wd2)
            r = replay.explore(cs, wd2, dump=True, workers=job.get("workers", 1), timeout=job.get("timeout", 1800))
            res["states"], res["transitions"] = r.distinct, r.generated
            if r.errors or not r.completed:
                res["spec_errors"] = r.errors[:5] or ["TLC did not complete"]
                res["machinery"] = "NASimEnv exploration failed: " + r.tail(30)
                return res
            graph = replay.parse_dump(r.out)
            if graph[0] is None or not graph[2]:
                res["machinery"] = "no transitions parsed from the TLC dump"
                return res
            info = replay.replay(cs, scn, graph, rec, modes=job.get("modes", replay.DEFAULT_MODES),
                                 foreign=job.get("foreign", True), max_states=job.get("max_states"),
                                 extras=job.get("extras", True), readable=not corpus.names_clash(cs))
            res["edges_replayed"] = info["edges"]
            res["graph_states"] = info["states"]
            res["spec_gates"] = {"%s/%s/%s" % k: v for k, v in info["gates"].items()}
        if job.get("agents"):
            from harness import agents_src
            res["agents"] = agents_src.drive_agents(scn, rec, job.get("modes", replay.DEFAULT_MODES), job.get("seed", 0),
                                                    job["agents"], agents=job.get("which", ("bruteforce", "random")))
        if job.get("sweep"):
            res["sweep"] = drive_sweep(cs, scn, rec, job.get("seed", 0), job.get("modes", replay.DEFAULT_MODES[:1]),
                                       max_steps=job["sweep"])
        if job.get("random_steps"):
            ctor, modes_ = None, job.get("modes", replay.DEFAULT_MODES)
            if job["src"][0] == "gym":
                # the environment comes from gymnasium.make(id); the modes the monitor expects follow from the
                # documented naming of the id (PO / 2D / VA)
                ctor, modes_ = gym_ctor(job["src"][1]), (gym_id_parts(job["src"][1])[1],)
            drive_random(cs, scn, rec, job.get("seed", 0), job["random_steps"],
                         modes_, lockstep=job.get("lockstep", False), ctor=ctor,
                         extras=job.get("extras", True), readable=not corpus.names_clash(cs),
                         record_draws=job.get("record_draws", False))
        rec.close()
        res["counts"] = dict(rec.counts)
        res["events"] = rec.i
        mon = os.path.join(wd, "mon")
        os.makedirs(mon)
        m = tlc.run_monitor(tla, trace, workdir=mon, timeout=job.get("timeout", 3600))
        res["fails"] = m.fails()
        res["hist"] = {"%s/%s/%s" % k: v for k, v in m.hist().items()}
        res["monitor_wall"] = m.wall
        res["sample"] = sample_events(trace)
        props = sorted(set(f[0] for f in res["fails"]) - {"DRIFT", "BEYOND"})
        if props:
            os.makedirs(REPLAY_DIR, exist_ok=True)
            base = os.path.join(REPLAY_DIR, "%s-%d" % (cs["name"], os.getpid()))
            keep_replay(trace, tla, res["fails"], base)
            res["replay"] = base + ".ndjson"
    except tlc.TLCError as ex:
        res["machinery"] = str(ex)[:3000]
    except Exception:
        res["machinery"] = traceback.format_exc()[-3000:]
    finally:
        shutil.rmtree(wd, ignore_errors=True)
        res["wall"] = time.time() - t0
    return res


def keep_replay(trace, tla, fails, base):
    """keep the creation events, and for each failing event the events leading to it since the last reset"""
    shutil.copy(trace, base + ".ndjson")
    with open(base + ".tla", "w") as fh:
        fh.write(tla)
    with open(base + ".fails.json", "w") as fh:
        json.dump(fails[:200], fh)


def sample_events(trace, n=2):
    out = []
    with open(trace) as fh:
        for line in fh:
            ev = json.loads(line)
            if ev["ev"] in ("step", "genstep") and ev["info"]["success"] and ev["post_rows"]:
                ev = dict(ev)
                ev["obs"] = "(omitted)"
                out.append(ev)
                if len(out) >= n:
                    break
    return out


def run_jobs(jobs, procs=8):
    if procs <= 1 or len(jobs) <= 1:
        return [run_job(j) for j in jobs]
    ctx = mp.get_context("fork")
    with ctx.Pool(min(procs, len(jobs))) as pool:
        return pool.map(run_job, jobs, chunksize=1)
