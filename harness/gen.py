"""Running the real scenario generator under a draw-count bound (every retry loop of the generator draws, so a
run-away loop is detected deterministically) with a process-level watchdog as backstop."""
import contextlib
import multiprocessing as mp
import os
import pickle
import signal
import sys

import numpy as np

from harness import corpus

DRAW_BOUND = 400000


class DrawBoundExceeded(Exception):
    pass


NAMES = ["rand", "randint", "choice", "random_sample", "random", "poisson", "uniform", "normal", "shuffle",
         "permutation"]


@contextlib.contextmanager
def counted_rng(bound=DRAW_BOUND, tape=None):
    """wraps numpy.random.* with a call counter; optionally records (name, args summary) on `tape`"""
    saved = {}
    state = {"n": 0}

    def mk(name, orig):
        def w(*a, **k):
            state["n"] += 1
            if state["n"] > bound:
                raise DrawBoundExceeded("more than %d random draws" % bound)
            if tape is not None:
                tape.append((name, _summ(a, k)))
            return orig(*a, **k)
        return w

    for n in NAMES:
        if hasattr(np.random, n):
            saved[n] = getattr(np.random, n)
            setattr(np.random, n, mk(n, saved[n]))
    try:
        yield state
    finally:
        for n, f in saved.items():
            setattr(np.random, n, f)


def _summ(a, k):
    def one(x):
        if isinstance(x, (list, tuple, np.ndarray)):
            return [str(y) for y in list(x)[:50]]
        return str(x)
    return [one(x) for x in a] + ["%s=%s" % (kk, one(vv)) for kk, vv in sorted(k.items())]


def generate(params, bound=DRAW_BOUND, tape=None):
    """in-process generation under the draw bound; raises DrawBoundExceeded / whatever the generator raises"""
    sys.path[:0] = [p for p in (corpus.REPO,) if p not in sys.path]
    import nasim
    with counted_rng(bound, tape) as st:
        scn = nasim.generate_scenario(**params)
    return scn, st["n"]


def make_benchmark(name, seed, bound=DRAW_BOUND):
    sys.path[:0] = [p for p in (corpus.REPO,) if p not in sys.path]
    import nasim
    with counted_rng(bound) as st:
        scn = nasim.make_benchmark_scenario(name, seed=seed)
    return scn, st["n"]


def _child(conn, params, bound):
    try:
        signal.alarm(120)                 # default action: the child is killed (backstop for loops that do not draw)
        scn, n = generate(params, bound)
        conn.send(("ok", pickle.dumps(scn), n))
    except DrawBoundExceeded as ex:
        conn.send(("draw_bound", str(ex), bound))
    except BaseException as ex:          # noqa
        conn.send(("raised", "%s: %s" % (type(ex).__name__, str(ex)[:200]), 0))
    finally:
        conn.close()


def generate_watched(params, bound=DRAW_BOUND, timeout=150):
    """generation in a forked child: ('ok', scenario, draws) | ('draw_bound'|'raised'|'hung', message, n)"""
    ctx = mp.get_context("fork")
    a, b = ctx.Pipe(duplex=False)
    p = ctx.Process(target=_child, args=(b, params, bound))
    p.daemon = False
    p.start()
    b.close()
    try:
        if a.poll(timeout):
            kind, payload, n = a.recv()
            if kind == "ok":
                return "ok", pickle.loads(payload), n
            return kind, payload, n
        return "hung", "no result within %ds" % timeout, 0
    except EOFError:
        return "hung", "generator process died (watchdog)", 0
    finally:
        if p.is_alive():
            p.kill()
        p.join()
