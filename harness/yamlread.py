"""Independent reading of a NASim YAML scenario file (PyYAML safe_load + own key parser).

Produces the canonical scenario `cs` *from the document*, not from the loader's result, so that a
rule the loader drops or misreads shows up as a difference (C17) or as an action the file forbids
but the environment allows (C02)."""
import re

import yaml

from harness.export import milli, ppm, NONE

_PAIR = re.compile(r"^\s*\(\s*(-?\d+)\s*,\s*(-?\d+)\s*\)\s*$")


def pair(key):
    m = _PAIR.match(str(key))
    if not m:
        raise ValueError("not an (a, b) key: %r" % (key,))
    return (int(m.group(1)), int(m.group(2)))


def read_doc(path):
    with open(path) as fh:
        return yaml.safe_load(fh)


def access_level(x):
    if isinstance(x, str):
        return {"user": 1, "root": 2}[x.lower()]
    return int(x)


def os_name(x):
    return NONE if str(x).lower() == "none" else str(x)


def cs_from_doc(doc, name="doc"):
    subnets = [1] + [int(x) for x in doc["subnets"]]
    hosts = []
    for s in range(1, len(subnets)):
        for h in range(subnets[s]):
            hosts.append((s, h))
    hc = {pair(k): v for k, v in doc["host_configurations"].items()}
    # the loader keeps hosts in document order
    order = [pair(k) for k in doc["host_configurations"].keys()]
    sens = {pair(k): milli(v) for k, v in doc["sensitive_hosts"].items()}
    cs = dict(name=name, subnets=subnets,
              topology=[[int(c) for c in row] for row in doc["topology"]],
              hosts=[list(h) for h in order],
              os=[str(x) for x in doc["os"]], services=[str(x) for x in doc["services"]],
              processes=[str(x) for x in doc["processes"]],
              host_os={}, host_srv={}, host_proc={}, val={}, dval={}, sens=sens, fw={}, hdeny={},
              exploits=[], privescs=[],
              scan_cost=dict(service_scan=milli(doc["service_scan_cost"]), os_scan=milli(doc["os_scan_cost"]),
                             subnet_scan=milli(doc["subnet_scan_cost"]),
                             process_scan=milli(doc["process_scan_cost"])),
              step_limit=doc.get("step_limit", None),
              bounds=[len(subnets), max(subnets)])
    for h in order:
        c = hc[h]
        cs["host_os"][h] = [str(c["os"])]
        cs["host_srv"][h] = [s for s in cs["services"] if s in [str(x) for x in c["services"]]]
        cs["host_proc"][h] = [p for p in cs["processes"] if p in [str(x) for x in c["processes"]]]
        cs["val"][h] = sens[h] if h in sens else milli(c.get("value", 0))
        cs["dval"][h] = 0
        cs["hdeny"][h] = {pair(k): [str(x) for x in v] for k, v in (c.get("firewall") or {}).items()}
    for k, v in doc["firewall"].items():
        cs["fw"][pair(k)] = [str(x) for x in v]
    for n, e in doc["exploits"].items():
        cs["exploits"].append(dict(name=str(n), srv=str(e["service"]), os=os_name(e["os"]),
                                   prob=ppm(e["prob"]), cost=milli(e["cost"]), access=access_level(e["access"])))
    for n, e in (doc["privilege_escalation"] or {}).items():
        cs["privescs"].append(dict(name=str(n), proc=str(e["process"]), os=os_name(e["os"]),
                                   prob=ppm(e["prob"]), cost=milli(e["cost"]), access=access_level(e["access"])))
    return cs


def cs_from_yaml(path, name=None):
    return cs_from_doc(read_doc(path), name or path.split("/")[-1].split(".")[0])
