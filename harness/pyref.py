"""Input selection helpers (never used for a verdict): which action a flat index / definition
denotes in a canonical scenario `cs`, so that the harness can place the scripted draw on the
requested side of the action's probability and build custom Action objects."""
from harness.export import NONE

ONE = 1000000


def scan(kind, t, cs):
    return dict(kind=kind, name=kind, target=list(t), cost=cs["scan_cost"][kind], prob=ONE, req=1,
                srv=NONE, proc=NONE, os=NONE, access=0)


def exploit(e, t):
    return dict(kind="exploit", name=e["name"], target=list(t), cost=e["cost"], prob=e["prob"], req=1,
                srv=e["srv"], proc=NONE, os=e["os"], access=e["access"])


def privesc(p, t):
    return dict(kind="privesc", name=p["name"], target=list(t), cost=p["cost"], prob=p["prob"], req=1,
                srv=NONE, proc=p["proc"], os=p["os"], access=p["access"])


NOOP = dict(kind="noop", name="noop", target=[1, 0], cost=0, prob=ONE, req=0, srv=NONE, proc=NONE, os=NONE, access=0)


def per_host(cs):
    return 4 + len(cs["exploits"]) + len(cs["privescs"])


def n_actions(cs):
    return len(cs["hosts"]) * per_host(cs)


def flat_action(cs, k):
    """k is the 1-based index used by the specification (k = implementation index + 1); 0 = no-op;
    k > n_actions = custom action object number k - n_actions"""
    if k == 0:
        return dict(NOOP)
    n = n_actions(cs)
    if k > n:
        return dict(cs["extra_actions"][k - n - 1])
    ph = per_host(cs)
    t = cs["hosts"][(k - 1) // ph]
    o = (k - 1) % ph
    if o < 4:
        return scan(["service_scan", "os_scan", "subnet_scan", "process_scan"][o], t, cs)
    if o < 4 + len(cs["exploits"]):
        return exploit(cs["exploits"][o - 4], t)
    return privesc(cs["privescs"][o - 4 - len(cs["exploits"])], t)


def all_probs(cs):
    ps = {ONE}
    for e in cs["exploits"] + cs["privescs"] + cs.get("extra_actions", []):
        ps.add(e["prob"])
    return ps


def draw_for(prob_ppm, luck, variant=0):
    """a uniform draw on the requested side of prob, at least 1e-4 away from it"""
    p = prob_ppm / 1000000.0
    if luck:
        if variant and p >= 0.0003:
            return p - 0.0001
        return p / 2.0
    if variant and p <= 0.9997:
        return p + 0.0001
    return (1.0 + p) / 2.0


def safe_random_draw(rng, probs):
    """a random draw that is not within 1e-5 of any action probability of the scenario"""
    while True:
        u = rng.random()
        if all(abs(u - p / 1000000.0) > 1e-5 for p in probs):
            return u
