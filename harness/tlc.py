"""Running TLC on the specification modules and parsing what it prints."""
import os
import re
import shutil
import subprocess
import tempfile
import time

SPEC_DIR = os.path.join(os.path.dirname(os.path.dirname(os.path.abspath(__file__))), "spec")
JAR = "/opt/veriftools/tla/tla2tools.jar:/opt/veriftools/tla/CommunityModules-deps.jar"


class TLCError(Exception):
    """machinery failure (parse error, TLC crash, unconsumed trace) -> exit code 2"""


def scratch_dir(prefix="nasimverif-"):
    return tempfile.mkdtemp(prefix=prefix, dir=os.environ.get("VERIF_TMP", "/tmp"))


def prepare(workdir, scenario_tla=None, extra_files=None):
    for f in os.listdir(SPEC_DIR):
        if f.endswith(".tla"):
            shutil.copy(os.path.join(SPEC_DIR, f), os.path.join(workdir, f))
    if scenario_tla is not None:
        with open(os.path.join(workdir, "Scenario.tla"), "w") as fh:
            fh.write(scenario_tla)
    for name, text in (extra_files or {}).items():
        with open(os.path.join(workdir, name), "w") as fh:
            fh.write(text)


def run(workdir, module, cfg_text, workers=1, env=None, timeout=3600, extra_args=(), heap="3g",
        cfg_name=None, simulate=None, depth=None, deadlock=False):
    cfg_name = cfg_name or (module + ".cfg")
    with open(os.path.join(workdir, cfg_name), "w") as fh:
        fh.write(cfg_text)
    meta = tempfile.mkdtemp(prefix="meta-", dir=workdir)
    # many JVMs run side by side: a single-worker run uses the serial collector, the others a few GC threads
    gc = ["-XX:+UseSerialGC"] if int(workers) <= 1 else ["-XX:+UseParallelGC", "-XX:ParallelGCThreads=%d" % min(4, int(workers))]
    cmd = ["java"] + gc + ["-Xmx" + heap, "-Djava.io.tmpdir=" + workdir, "-cp", JAR, "tlc2.TLC",
           "-workers", str(workers), "-metadir", meta, "-noGenerateSpecTE", "-config", cfg_name]
    if simulate:
        cmd += ["-simulate", simulate]
    if depth:
        cmd += ["-depth", str(depth)]
    if not deadlock:
        cmd += ["-deadlock"]
    cmd += list(extra_args) + [module]
    e = dict(os.environ)
    e.pop("JAVA_TOOL_OPTIONS", None)
    if env:
        e.update(env)
    t0 = time.time()
    try:
        p = subprocess.run(cmd, cwd=workdir, env=e, stdout=subprocess.PIPE, stderr=subprocess.STDOUT,
                           timeout=timeout, text=True, errors="replace")
        out, rc = p.stdout, p.returncode
    except subprocess.TimeoutExpired as ex:
        out = (ex.stdout or "") if isinstance(ex.stdout, str) else (ex.stdout or b"").decode(errors="replace")
        rc = -9
    shutil.rmtree(meta, ignore_errors=True)
    return Result(out, rc, time.time() - t0)


class Result:
    def __init__(self, out, rc, wall):
        self.out = out
        self.rc = rc
        self.wall = wall
        m = re.search(r"(\d+) states generated, (\d+) distinct states found", out)
        self.generated = int(m.group(1)) if m else 0
        self.distinct = int(m.group(2)) if m else 0
        if not m:
            m2 = re.search(r"The number of states generated: (\d+)", out)
            if m2:
                self.generated = self.distinct = int(m2.group(1))
        self.errors = [ln for ln in out.splitlines() if ln.startswith("Error:")]
        self.completed = "Model checking completed. No error has been found." in out \
            or "Finished in" in out and not self.errors

    def fails(self):
        """FAIL lines printed by a monitor: [(property, clause, event number)]"""
        res = []
        for m in re.finditer(r'<<\s*"FAIL",\s*"([^"]*)",\s*"([^"]*)",\s*(-?\d+)\s*>>', self.out):
            res.append((m.group(1), m.group(2), int(m.group(3))))
        return res

    def consumed(self):
        m = re.search(r'<<\s*"CONSUMED",\s*(-?\d+),\s*(\d+)\s*>>', self.out)
        return (int(m.group(1)), int(m.group(2))) if m else None

    def hist(self):
        """coverage histogram printed by NASimTrace!Done: {(kind, gate, luck): n}"""
        i = self.out.find('"HIST"')
        j = self.out.find('"CONSUMED"')
        h = {}
        if i < 0:
            return h
        txt = self.out[i:j if j > i else None]
        for mm in re.finditer(r'<<\s*"([a-z_]+)",\s*"([a-z_]+)",\s*(TRUE|FALSE)\s*>>\s*:>\s*(\d+)', txt):
            h[(mm.group(1), mm.group(2), mm.group(3) == "TRUE")] = int(mm.group(4))
        return h

    def tail(self, n=40):
        lines = [ln for ln in self.out.splitlines()
                 if not ln.startswith(("Parsing file", "Semantic processing", "Linting of"))]
        return "\n".join(lines[-n:])


def monitor_cfg():
    return ("SPECIFICATION Spec\nPOSTCONDITION Accepted\nINVARIANT Done\nCHECK_DEADLOCK FALSE\n")


def run_monitor(scenario_tla, trace_path, workdir=None, timeout=3600, module="NASimTrace", cfg=None):
    own = workdir is None
    if own:
        workdir = scratch_dir()
    try:
        prepare(workdir, scenario_tla)
        r = run(workdir, module, cfg or monitor_cfg(), workers=1, env={"TRACE_FILE": os.path.abspath(trace_path)},
                timeout=timeout)
        c = r.consumed()
        if c is None or c[0] != c[1]:
            raise TLCError("trace not fully consumed (%s) for %s:\n%s" % (c, trace_path, r.tail(60)))
        return r
    finally:
        if own:
            shutil.rmtree(workdir, ignore_errors=True)
