"""Recorder: drives real NASimEnv objects and writes the ndjson event log (DESIGN appendix A).

Measurement only: raw tensors are serialised as milli-ints, arrays are hashed, the random draw
is supplied from outside through numpy.random.rand.  No property is decided here.
"""
import contextlib
import hashlib
import json
import random as _pyrandom

import numpy as np

from harness.export import milli, ppm, ppm_recorded, NONE

ACTION_KIND = {
    "Exploit": "exploit", "PrivilegeEscalation": "privesc", "ServiceScan": "service_scan",
    "OSScan": "os_scan", "SubnetScan": "subnet_scan", "ProcessScan": "process_scan", "NoOp": "noop",
}


def rows_of(t):
    a = np.asarray(t, dtype=np.float64)
    if a.ndim == 1:
        a = a.reshape(1, -1)
    return np.rint(a * 1000).astype(np.int64).tolist()


def diff_rows(a, b):
    """rows of b that are not byte-equal to the same row of a -> [[idx, row], ...]"""
    a = np.asarray(a)
    b = np.asarray(b)
    if a.shape != b.shape:
        return [[i, r] for i, r in enumerate(rows_of(b))]
    out = []
    for i in range(b.shape[0]):
        if a[i].tobytes() != b[i].tobytes():
            out.append([i, rows_of(b[i])[0]])
    return out


def sha(arr):
    a = np.ascontiguousarray(np.asarray(arr))
    return hashlib.sha256(a.tobytes() + str(a.shape).encode() + str(a.dtype).encode()).hexdigest()[:16]


def project_action(a):
    """what an implementation Action object says about itself"""
    kind = ACTION_KIND.get(type(a).__name__, type(a).__name__)
    return dict(kind=kind, name=str(a.name), target=[int(a.target[0]), int(a.target[1])],
                cost=milli(a.cost), prob=ppm(a.prob), req=int(a.req_access),
                srv=str(getattr(a, "service", None) or NONE),
                proc=str(getattr(a, "process", None) or NONE),
                os=str(getattr(a, "os", None) or NONE),
                access=int(getattr(a, "access", 0) or 0))


class Tripwire:
    """Counts calls to numpy.random.rand and reports any other entropy source."""

    UNIFORM = ["rand", "random", "random_sample", "ranf", "sample"]      # numpy's uniform [0,1) family: scripted
    NP_BLIND = ["randint", "choice", "poisson", "uniform", "normal", "randn", "shuffle", "permutation", "bytes",
                "standard_normal", "beta", "binomial", "exponential", "dirichlet", "multinomial"]
    PY_OTHERS = ["random", "randint", "choice", "choices", "shuffle", "uniform", "randrange", "sample",
                 "getrandbits", "gauss"]

    def __init__(self):
        self.draws = []
        self.others = []      # entropy that is not numpy's global generator (or re-seeds it): a C14 matter
        self.blind = []       # draws from numpy's global generator the harness cannot script: luck is observed
        self.value = 0.5
        self.through_wrappers = 0     # 32-bit words of the global generator consumed through the wrappers below

    @staticmethod
    def _pos():
        st = np.random.get_state(legacy=True)
        return int(st[2]), int(st[1][0]), int(st[1][1])

    def _words(self, p0, p1):
        """32-bit words the global Mersenne Twister produced between two _pos() readings (fewer than 624)"""
        if p0 == p1:
            return 0
        n = p1[0] - p0[0]
        if (p0[1], p0[2]) != (p1[1], p1[2]):       # the state block was regenerated in between
            n += 624
        return n

    @contextlib.contextmanager
    def scripted(self, value):
        self.draws = []
        self.others = []
        self.blind = []
        self.value = value
        self.through_wrappers = 0
        saved = {}
        saved_py = {}
        pos0 = self._pos()

        def mk_uniform(name, orig):
            def fake(*args, **kw):
                size = (args if args else None) if name == "rand" else (args[0] if args else kw.get("size"))
                if self.value is None:          # record mode: the real generator draws, the value is only logged
                    q0 = self._pos()
                    x = orig(*args, **kw)
                    self.through_wrappers += self._words(q0, self._pos())
                    self.draws.append(float(np.asarray(x).reshape(-1)[0]))
                    return x
                self.draws.append(self.value)
                if size is not None:
                    return np.full(size, self.value)
                return self.value
            return fake

        def mk_seed(orig):
            def w(*a, **k):
                self.others.append("numpy.random.seed")
                self.through_wrappers += 100000        # the position is meaningless after a re-seed
                return orig(*a, **k)
            return w

        def mk_blind(name, orig):
            def w(*a, **k):
                if name == "uniform" and not a and not {"low", "high"} & set(k):
                    return saved_fake["random_sample"](k.get("size"))
                self.blind.append("numpy.random." + name)
                q0 = self._pos()
                try:
                    return orig(*a, **k)
                finally:
                    self.through_wrappers += self._words(q0, self._pos())
            return w

        def mkpy(name, orig):
            def w(*a, **k):
                self.others.append("random." + name)
                return orig(*a, **k)
            return w

        saved_fake = {}
        for n in self.UNIFORM:
            if hasattr(np.random, n):
                saved[n] = getattr(np.random, n)
                saved_fake[n] = mk_uniform(n, saved[n])
                setattr(np.random, n, saved_fake[n])
        saved["seed"] = np.random.seed
        np.random.seed = mk_seed(saved["seed"])
        for n in self.NP_BLIND:
            if hasattr(np.random, n):
                saved[n] = getattr(np.random, n)
                setattr(np.random, n, mk_blind(n, saved[n]))
        for n in self.PY_OTHERS:
            saved_py[n] = getattr(_pyrandom, n)
            setattr(_pyrandom, n, mkpy(n, saved_py[n]))
        try:
            yield self
        finally:
            for n, f in saved.items():
                setattr(np.random, n, f)
            for n, f in saved_py.items():
                setattr(_pyrandom, n, f)
            # the global generator moved although nothing went through the wrappers (or moved further than they
            # account for): the code under test holds its own reference to one of numpy's functions
            # (`from numpy.random import rand`), the draw was real and not the scripted one - blind mode
            if self.through_wrappers < 100000 and self._words(pos0, self._pos()) > self.through_wrappers:
                self.blind.append("numpy.random.<reference taken before the harness looked>")
                self.draws = []


class Recorder:
    def __init__(self, path, n_hosts, cs=None):
        self.cs = cs             # canonical scenario (harness.export): lets flat indices be translated, see _perm
        self.inv = {}            # env id -> {specification index - 1: implementation index}
        self.f = open(path, "w")
        self.i = 0
        self.nh = n_hosts
        self.trip = Tripwire()
        self.last_post = {}      # env id -> copy of current tensor after the last recorded call
        self.envs = {}
        self.counts = {}
        self.prev_obs = {}       # env id -> (observation array returned by the last reset / step, its hash then)
        self.held = {}           # id(State object the harness keeps) -> (object, sha of its tensor when it was kept)

    def close(self):
        self.f.close()

    def emit(self, ev):
        self.i += 1
        ev["i"] = self.i
        self.counts[ev["ev"]] = self.counts.get(ev["ev"], 0) + 1
        self.f.write(json.dumps(ev, separators=(",", ":")) + "\n")
        return ev

    # ---------------------------------------------------------------- helpers
    def obs_record(self, env, obs_arr, post_tensor, obs_obj=None):
        o = np.asarray(obs_arr)
        nrows = self.nh + 1
        rec = dict(shape=[int(x) for x in o.shape], dtype=str(o.dtype), is_ndarray=isinstance(obs_arr, np.ndarray))
        if obs_obj is not None:
            rec["flat_sha"] = sha(o.reshape(-1))
            rec["twod_sha"] = sha(np.asarray(obs_obj.numpy()).reshape(-1))
        try:
            rec["in_space"] = bool(env.observation_space.contains(obs_arr))
        except Exception:
            rec["in_space"] = False
        ok = o.size % nrows == 0 and o.size > 0
        if not ok:
            rec.update(explicit=[], same=[], aux=[], malformed=True)
            return rec
        o2 = o.reshape(nrows, o.size // nrows)        # documented de-flattening: row-major
        post = np.asarray(post_tensor)
        explicit, same = [], []
        for r in range(self.nh):
            row = o2[r]
            if not row.any():
                continue
            if post.shape[1] == row.shape[0] and post[r].dtype == row.dtype and post[r].tobytes() == row.tobytes():
                same.append(r)
            else:
                explicit.append([r, rows_of(row)[0]])
        rec.update(explicit=explicit, same=same, aux=rows_of(o2[self.nh])[0])
        return rec

    def _perm(self, eid, env):
        """C11 does not fix the order of the flat action list.  If the implementation's list is a rearrangement of the
        specification's (matched by kind, name, target - input decoding only; the monitor verifies the proposal
        against the full action records), return perm[i] = specification index (1-based) of the i-th action and
        remember the inverse for the drivers; None when the order is the specification's (the pinned tree)."""
        if self.cs is None:
            return None
        from harness import pyref
        try:
            n = pyref.n_actions(self.cs)
            acts = list(env.action_space.actions)
            if len(acts) != n:
                return None
            want = {}
            for k in range(1, n + 1):
                a = pyref.flat_action(self.cs, k)
                want[(a["kind"], a["name"], tuple(a["target"]))] = k
            perm = []
            for a in acts:
                pa = project_action(a)
                perm.append(want.get((pa["kind"], pa["name"], tuple(pa["target"])), 0))
        except Exception:      # noqa
            return None
        if perm == list(range(1, n + 1)):
            return None
        if sorted(perm) == list(range(1, n + 1)):
            self.inv[eid] = {k - 1: i for i, k in enumerate(perm)}
        return perm

    def action_arg(self, env, spec, eid=None):
        """spec: (enc, payload) -> (argument passed to the implementation, logged description); a flat index is given
        in the specification's order and translated to the implementation's"""
        enc, p = spec
        if enc in ("int", "npint", "np0d") and eid in self.inv:
            p = self.inv[eid].get(int(p), int(p))
        if enc == "int":
            return int(p), dict(enc=enc, idx=int(p))
        if enc == "npint":
            return np.int64(p), dict(enc=enc, idx=int(p))
        if enc == "np0d":
            return np.array(p, dtype=np.int64), dict(enc=enc, idx=int(p))
        if enc == "list":
            return [int(x) for x in p], dict(enc=enc, vec=[int(x) for x in p])
        if enc == "tuple":
            return tuple(int(x) for x in p), dict(enc=enc, vec=[int(x) for x in p])
        if enc == "ndarray":
            return np.array(p, dtype=np.int64), dict(enc=enc, vec=[int(x) for x in p])
        if enc == "obj":
            return make_action_object(p), dict(enc=enc, obj=p)
        if enc == "realobj":
            # an Action object that already exists (e.g. a member of ANOTHER environment's action list): passed as it is
            return p, dict(enc="obj", obj=project_action(p))
        raise ValueError(enc)

    # ----------------------------------------------------------------- events
    def create(self, eid, scenario, fully_obs, flat_actions, flat_obs, ctor=None):
        from nasim.envs import NASimEnv
        with self.trip.scripted(0.5):
            env = (ctor or NASimEnv)(scenario, fully_obs=fully_obs, flat_actions=flat_actions, flat_obs=flat_obs)
        self.envs[eid] = env
        t = env.current_state.tensor
        if env.flat_obs:
            obs = env.last_obs.numpy_flat()
        else:
            obs = env.last_obs.numpy()
        sp = env.observation_space
        adv = dict(state_dims=[int(x) for x in scenario.get_state_dims()],
                   obs_dims=[int(x) for x in scenario.get_observation_dims()],
                   scn_actions=int(scenario.get_action_space_size()),
                   n_actions=int(len(env.action_space.actions)),
                   space_shape=[int(x) for x in sp.shape], space_dtype=str(sp.dtype),
                   low=milli(np.min(sp.low)), high=milli(np.max(sp.high)),
                   steps=int(env.steps))
        try:
            d_ = scenario.get_description()
            adv["description"] = dict(subnets=int(d_["Subnets"]), hosts=int(d_["Hosts"]), os=int(d_["OS"]),
                                      services=int(d_["Services"]), processes=int(d_["Processes"]),
                                      exploits=int(d_["Exploits"]), privescs=int(d_["PrivEscs"]),
                                      actions=int(d_["Actions"]), obs_dims=[int(x) for x in d_["Observation Dims"]],
                                      states_mod=int(d_["States"] % 1000003),
                                      step_limit=-1 if d_["Step Limit"] is None else int(d_["Step Limit"]))
        except Exception as ex:      # noqa
            adv["description"] = dict(raised=type(ex).__name__)
        perm = self._perm(eid, env)
        if perm is not None:
            adv["perm"] = perm
        if flat_actions:
            adv["space_n"] = int(env.action_space.n)
        else:
            adv["nvec"] = [int(x) for x in env.action_space.nvec]
        self.last_post[eid] = t.copy()
        ev = self.emit(dict(ev="create", env=eid,
                            modes=dict(fo=bool(fully_obs), fa=bool(flat_actions), f1=bool(flat_obs)),
                            adv=adv, tensor=rows_of(t), tdtype=str(t.dtype),
                            obs=self.obs_record(env, obs, t),
                            entropy=list(self.trip.others), ndraw=len(self.trip.draws)))
        if perm is not None:
            self.actions(eid)        # a proposed rearrangement is always verified against the full records
        return ev

    def raised(self, eid, what, exc, prop, clause, extra=None):
        ev = dict(ev="raised", env=eid, what=what, exc=type(exc).__name__, msg=str(exc)[:200],
                  prop=prop, clause=clause)
        if extra:
            ev.update(extra)
        return self.emit(ev)

    def reset(self, eid, seed=None):
        env = self.envs[eid]
        before = env.current_state.tensor.copy()
        cur_obj = env.current_state
        with self.trip.scripted(0.5):
            try:
                ret = env.reset() if seed is None else env.reset(seed=seed)
            except Exception as exc:       # noqa
                self.last_ret, self.last_exc = None, exc
                return self.raised(eid, "reset", exc, "C10", "reset_is_total")
        self.last_ret, self.last_exc = ret, None
        self._rehold(cur_obj)
        after = env.current_state.tensor
        arity = len(ret) if isinstance(ret, tuple) else -1
        obs = ret[0] if arity >= 1 else ret
        prev_same = self._prev_obs_same(eid)
        self.prev_obs[eid] = (obs, sha(np.asarray(obs)))
        ev = dict(ev="reset", env=eid, prev_obs_same=prev_same,
                  pre_rows=diff_rows(self.last_post[eid], before),
                  post_rows=diff_rows(before, after),
                  obs=self.obs_record(env, obs, after),
                  steps_after=int(env.steps), arity=arity,
                  info_is_dict=bool(arity == 2 and isinstance(ret[1], dict)),
                  entropy=list(self.trip.others), ndraw=len(self.trip.draws))
        self.last_post[eid] = after.copy()
        return self.emit(ev)

    def _info(self, info):
        def addrs(d):
            return [[int(a[0]), int(a[1])] for a, v in d.items() if v]
        return dict(success=bool(info["success"]), conn=bool(info["connection_error"]),
                    perm=bool(info["permission_error"]), undef=bool(info["undefined_error"]),
                    value=milli(info["value"]), disc=addrs(info["discovered"]),
                    newly=addrs(info["newly_discovered"]))

    def step(self, eid, spec, u, grp=None):
        arg, adesc = self.action_arg(self.envs[eid], spec, eid)
        return self.step_raw(eid, arg, adesc, u, grp)

    def step_raw(self, eid, arg, adesc, u, grp=None):
        env = self.envs[eid]
        arg_copy = arg.copy() if isinstance(arg, np.ndarray) else None
        before = env.current_state.tensor.copy()
        cur_obj = env.current_state
        steps_before = int(env.steps)
        with self.trip.scripted(u):
            try:
                ret = env.step(arg)
            except Exception as exc:       # noqa
                self.last_ret, self.last_exc = None, exc
                return self.raised(eid, "step", exc, "C10", "every_member_accepted", dict(a=adesc))
        self.last_ret, self.last_exc = ret, None
        self._rehold(cur_obj)
        after_state = env.current_state
        after = after_state.tensor
        arity = len(ret) if isinstance(ret, tuple) else -1
        obs, reward, term, trunc, info = ret
        prev_same = self._prev_obs_same(eid)
        self.prev_obs[eid] = (obs, sha(np.asarray(obs)))
        uppm = ppm(u) if u is not None else ppm_recorded(self.trip.draws[0]) if self.trip.draws else 500000
        ev = dict(ev="step", env=eid, a=adesc, u=uppm, prev_obs_same=prev_same, ndraw=len(self.trip.draws),
                  entropy=list(self.trip.others), blind=bool(self.trip.blind and not self.trip.draws),
                  pre_rows=diff_rows(self.last_post[eid], before),
                  post_rows=diff_rows(before, after),
                  obs=self.obs_record(env, obs, after, env.last_obs),
                  reward=milli(reward), term=bool(term), trunc=bool(trunc),
                  info=self._info(info), steps_before=steps_before, steps_after=int(env.steps),
                  arity=arity,
                  types_ok=bool(isinstance(reward, (float, int, np.floating, np.integer))
                                and isinstance(term, (bool, np.bool_)) and isinstance(trunc, (bool, np.bool_))
                                and isinstance(info, dict)),
                  shares_memory=bool(np.shares_memory(before, after)),
                  installed=bool(np.array_equal(env.last_obs.numpy().reshape(-1), np.asarray(obs).reshape(-1))),
                  lastobs_sha=sha(env.last_obs.numpy()), cur_sha=sha(after),
                  arg_modified=bool(arg_copy is not None and not np.array_equal(arg_copy, arg)))
        if grp is not None:
            ev["grp"] = grp
        self.last_post[eid] = after.copy()
        return self.emit(ev)

    def _prev_obs_same(self, eid):
        """the array the previous reset / step of this environment returned still holds what it held then"""
        if eid not in self.prev_obs:
            return True
        arr, h = self.prev_obs[eid]
        try:
            return bool(sha(np.asarray(arr)) == h)
        except Exception:      # noqa
            return False

    def _rehold(self, state):
        """step() / reset() may legitimately work in place on the object that was current when they were called
        (C13 speaks about generative_step only): a kept reference to it is re-read afterwards"""
        if id(state) in self.held:
            self.held[id(state)] = (state, sha(state.tensor))

    def hold(self, state):
        """the harness keeps this State object (as a planner would); when it is used again it must still be the same"""
        self.held[id(state)] = (state, sha(state.tensor))
        return state

    def genstep(self, eid, state, spec, u, grp=None):
        """state: an implementation State object (e.g. one returned earlier), or None = env.current_state"""
        env = self.envs[eid]
        arg, adesc = self.action_arg(env, spec, eid)
        act_copy = arg.copy() if isinstance(arg, np.ndarray) else None
        held_same = None
        if state is not None and id(state) in self.held:
            held_same = bool(self.held[id(state)][1] == sha(state.tensor))
        if state is None:
            state = env.current_state
        argt = state.tensor
        arg_before = sha(argt)
        arg_copy = argt.copy()
        cur_before = sha(env.current_state.tensor)
        cur_copy = env.current_state.tensor.copy()
        obs_before = sha(env.last_obs.numpy())
        steps_before = int(env.steps)
        with self.trip.scripted(u):
            try:
                ret = env.generative_step(state, arg)
            except Exception as exc:       # noqa
                return self.raised(eid, "generative_step", exc, "C10", "every_member_accepted", dict(a=adesc)), None
        arity = len(ret) if isinstance(ret, tuple) else -1
        nstate, obs, reward, term, info = ret
        if env.flat_obs:
            oarr = obs.numpy_flat()
        else:
            oarr = obs.numpy()
        uppm = ppm(u) if u is not None else ppm_recorded(self.trip.draws[0]) if self.trip.draws else 500000
        ev = dict(ev="genstep", env=eid, a=adesc, u=uppm, ndraw=len(self.trip.draws),
                  entropy=list(self.trip.others), blind=bool(self.trip.blind and not self.trip.draws),
                  pre_rows=diff_rows(self.last_post[eid], arg_copy),
                  post_rows=diff_rows(arg_copy, nstate.tensor),
                  obs=self.obs_record(env, oarr, nstate.tensor, obs),
                  reward=milli(reward), term=bool(term), info=self._info(info),
                  steps_before=steps_before, steps_after=int(env.steps), arity=arity,
                  arg_sha=[arg_before, sha(state.tensor)],
                  cur_sha=[cur_before, sha(env.current_state.tensor)],
                  lastobs_sha=[obs_before, sha(env.last_obs.numpy())],
                  shares_memory=bool(np.shares_memory(state.tensor, nstate.tensor)
                                     or np.shares_memory(env.current_state.tensor, nstate.tensor)),
                  cur_drift=diff_rows(cur_copy, env.current_state.tensor),
                  arg_modified=bool(act_copy is not None and not np.array_equal(act_copy, arg)))
        if grp is not None:
            ev["grp"] = grp
        if held_same is not None:
            ev["held_same"] = held_same
        return self.emit(ev), nstate

    def goal(self, eid, state):
        env = self.envs[eid]
        t = (state or env.current_state).tensor
        held_same = None
        if state is not None and id(state) in self.held:
            held_same = bool(self.held[id(state)][1] == sha(t))
        try:
            ans = bool(env.goal_reached(state))
        except Exception as exc:   # noqa
            return self.raised(eid, "goal_reached", exc, "C06", "goal_query_any_state")
        ev = dict(ev="goal", env=eid, pre_rows=diff_rows(self.last_post[eid], t), ans=ans)
        if held_same is not None:
            ev["held_same"] = held_same
        return self.emit(ev)



    # ------------------------------------------------ action spaces, decoders
    def actions(self, eid):
        env = self.envs[eid]
        return self.emit(dict(ev="actions", env=eid, list=[project_action(a) for a in env.action_space.actions]))

    def decode_all(self, eid, limit=None):
        """decode every vector of the parameterised space (exhaustive), or a seeded sample"""
        import itertools
        env = self.envs[eid]
        nvec = [int(x) for x in env.action_space.nvec]
        n = 0
        for vec in itertools.product(*[range(k) for k in nvec]):
            self.decode(eid, list(vec), ["list", "tuple", "ndarray"][n % 3])
            n += 1
            if limit and n >= limit:
                return n
        self.emit(dict(ev="decode_done", env=eid, n=n))
        return n

    def decode(self, eid, vec, enc="list"):
        env = self.envs[eid]
        arg = {"list": list(vec), "tuple": tuple(vec), "ndarray": np.array(vec, dtype=np.int64)}[enc]
        try:
            a = env.action_space.get_action(arg)
        except Exception as exc:   # noqa
            return self.raised(eid, "get_action", exc, "C11", "param_decodes_without_error", dict(vec=list(vec)))
        try:
            member = bool(a.is_noop() or any(a == b for b in env.action_space.actions))
        except Exception:      # noqa
            member = False
        return self.emit(dict(ev="decode", env=eid, vec=[int(x) for x in vec], enc=enc, got=project_action(a),
                              member_by_api_equality=member))

    def mask(self, eid):
        env = self.envs[eid]
        t = env.current_state.tensor
        try:
            m = env.get_action_mask()
        except Exception as exc:   # noqa
            return self.raised(eid, "get_action_mask", exc, "C11", "mask_iff_discovered")
        return self.emit(dict(ev="mask", env=eid, pre_rows=diff_rows(self.last_post[eid], t),
                              mask=[int(x) for x in np.asarray(m).reshape(-1)]))

    def _readable_host(self, d, cs):
        a = d["Address"]
        return dict(addr=[int(a[0]), int(a[1])], comp=bool(d["Compromised"]), reach=bool(d["Reachable"]),
                    disc=bool(d["Discovered"]), value=milli(d["Value"]), dvalue=milli(d["Discovery Value"]),
                    access=milli(d["Access"]), os=[n for n in cs["os"] if d.get(n)],
                    srvs=[n for n in cs["services"] if d.get(n)], procs=[n for n in cs["processes"] if d.get(n)])

    def readable_state(self, eid, cs):
        """State.from_numpy on the flattened current tensor, then get_readable()"""
        from nasim.envs.state import State
        env = self.envs[eid]
        st = env.current_state
        try:
            st2 = State.from_numpy(st.numpy_flat(), st.shape(), st.host_num_map)
            rd = st2.get_readable()
            # the live state read directly (what env.render_state does): same content, and reading changes nothing
            live_before = sha(st.tensor)
            rows_before = rows_of(st.tensor)
            rd_live = st.get_readable()
            live_equal = bool([self._readable_host(d, cs) for d in rd_live] == [self._readable_host(d, cs) for d in rd])
            live_unchanged = bool(live_before == sha(st.tensor))
        except Exception as exc:   # noqa
            return self.raised(eid, "State.from_numpy/get_readable", exc, "C09", "from_numpy_roundtrip")
        return self.emit(dict(ev="readable", env=eid, what="state", rows=rows_before,
                              live_equal=live_equal, live_unchanged=live_unchanged,
                              readable=[self._readable_host(d, cs) for d in rd],
                              roundtrip_diff=diff_rows(st.tensor, st2.tensor),
                              shape_ok=bool(st2.tensor.shape == st.tensor.shape)))

    def readable_obs(self, eid, cs, obs_arr):
        """Observation.from_numpy on an array returned by reset/step, then get_readable()"""
        from nasim.envs.observation import Observation
        env = self.envs[eid]
        try:
            o2 = Observation.from_numpy(np.asarray(obs_arr), env.current_state.shape())
            hosts, aux = o2.get_readable()
            # the same content handed over in column-major memory order: the 1D form is still the row-major
            # flattening of the 2D one
            ref0 = np.asarray(obs_arr).reshape(self.nh + 1, -1)
            o3 = Observation.from_numpy(np.asfortranarray(ref0), env.current_state.shape())
            flat_any_order = bool(np.array_equal(np.asarray(o3.numpy_flat()), ref0.reshape(-1))
                                  and np.array_equal(np.asarray(o3.numpy()), ref0))
        except Exception as exc:   # noqa
            return self.raised(eid, "Observation.from_numpy/get_readable", exc, "C09", "from_numpy_roundtrip")
        ref = np.asarray(obs_arr).reshape(self.nh + 1, -1)
        return self.emit(dict(ev="readable", env=eid, what="obs", rows=rows_of(ref[:self.nh]),
                              aux=rows_of(ref[self.nh])[0], flat_any_order=flat_any_order,
                              readable=[self._readable_host(d, cs) for d in hosts],
                              aux_readable=dict(success=bool(aux["Success"]), conn=bool(aux["Connection Error"]),
                                                perm=bool(aux["Permission Error"]), undef=bool(aux["Undefined Error"])),
                              roundtrip_diff=diff_rows(ref, o2.tensor),
                              shape_ok=bool(tuple(o2.tensor.shape) == (self.nh + 1, ref.shape[1]))))

    def init_states(self, eid):
        """generate_initial_state() / generate_random_initial_state(): what they return, and that the environment
        itself is left alone"""
        env = self.envs[eid]
        cur = sha(env.current_state.tensor)
        out = dict(ev="initstate", env=eid)
        # other read-only helpers of the public API: whatever they compute, they are queries
        for helper in (lambda: env.get_minimum_hops(), lambda: env.get_score_upper_bound(),
                       lambda: env.network.get_subnet_depths(), lambda: env.network.get_total_sensitive_host_value(),
                       lambda: env.network.get_total_discovery_value(), lambda: env.get_action_mask()):
            try:
                helper()
            except Exception:      # noqa
                pass
        try:
            with self.trip.scripted(0.5):
                s0 = env.generate_initial_state()
            out["initial"] = rows_of(s0.tensor)
        except Exception as ex:      # noqa
            out["initial"] = []
            out["initial_raised"] = type(ex).__name__
        try:
            s1 = env.generate_random_initial_state()
            out["random"] = rows_of(s1.tensor)
        except Exception as ex:      # noqa
            out["random"] = []
            out["random_raised"] = type(ex).__name__
        out["cur_unchanged"] = bool(cur == sha(env.current_state.tensor))
        return self.emit(out)

    def fork(self, eid, new_eid):
        """copy.deepcopy of an environment in the middle of an episode (what a planner does to look ahead with the real
        step()): the copy is recorded as a new environment that continues the parent's episode"""
        import copy
        env = self.envs[eid]
        try:
            env2 = copy.deepcopy(env)
        except Exception as exc:   # noqa
            return self.raised(eid, "copy.deepcopy", exc, "C19", "copy_of_an_environment_has_the_same_state")
        self.envs[new_eid] = env2
        if eid in self.inv:
            self.inv[new_eid] = dict(self.inv[eid])
        t, t2 = env.current_state.tensor, env2.current_state.tensor
        self.last_post[new_eid] = t2.copy()
        return self.emit(dict(ev="fork", env=new_eid, of=eid, steps=int(env2.steps),
                              same_tensor=bool(t.shape == t2.shape and np.array_equal(t, t2)),
                              same_last_obs=bool(np.array_equal(np.asarray(env.last_obs.numpy()),
                                                                np.asarray(env2.last_obs.numpy()))),
                              shares_memory=bool(np.shares_memory(t, t2))))

    def sample_step(self, eid, u):
        """step with whatever the action space's own sampler returns"""
        env = self.envs[eid]
        x = env.action_space.sample()
        if env.flat_actions:
            return self.step_raw(eid, x, dict(enc="npint", idx=int(x)), u)
        return self.step_raw(eid, x, dict(enc="ndarray", vec=[int(v) for v in np.asarray(x).reshape(-1)]), u)


def make_action_object(d):
    """Build a real nasim Action object from a description dict (custom actions, e.g. req = ROOT)."""
    from nasim.envs import action as A
    t = (int(d["target"][0]), int(d["target"][1]))
    cost = d["cost"] / 1000.0
    prob = d["prob"] / 1000000.0
    req = d["req"]
    k = d["kind"]
    none = lambda x: None if x == NONE else x
    if k == "exploit":
        return A.Exploit(d["name"], t, cost, d["srv"], os=none(d["os"]), access=d["access"], prob=prob, req_access=req)
    if k == "privesc":
        return A.PrivilegeEscalation(d["name"], t, cost, d["access"], process=none(d["proc"]), os=none(d["os"]),
                                     prob=prob, req_access=req)
    if k == "service_scan":
        return A.ServiceScan(t, cost, prob=prob, req_access=req)
    if k == "os_scan":
        return A.OSScan(t, cost, prob=prob, req_access=req)
    if k == "subnet_scan":
        return A.SubnetScan(t, cost, prob=prob, req_access=req)
    if k == "process_scan":
        return A.ProcessScan(t, cost, prob=prob, req_access=req)
    if k == "noop":
        return A.NoOp()
    raise ValueError(k)
