"""Checks C17 (a loaded YAML scenario means what the file says) and C18 (malformed files are rejected)."""
import collections
import json
import multiprocessing as mp
import os
import shutil
import time

from harness import common, fmt, tlc, dynamic
from harness.common import Verdict


def _gen_many(n, seed, base_wd, procs=8):
    """n generated documents, by several seeded TLC simulations in parallel"""
    per = max(1, (n + procs - 1) // procs) if n > 16 else n
    jobs = []
    left, i = n, 0
    while left > 0:
        k = min(per, left)
        wd = os.path.join(base_wd, "gen%d" % i)
        os.makedirs(wd)
        jobs.append((k, seed * 100 + i, wd))
        left -= k
        i += 1
    with mp.get_context("fork").Pool(min(procs, len(jobs))) as pool:
        res = pool.starmap(fmt.gen_docs, jobs)
    docs, states = [], 0
    for d, r in res:
        docs.extend(d)
        states += r.generated
    return docs[:n], states


def _n_hosts(doc):
    for k, v in zip(doc["k"], doc["v"]):
        if k.get("v") == "host_configurations":
            return len(v["k"])
    return 0


def check_c17(prop, tier, seed):
    v = Verdict(prop)
    t0 = time.time()
    wd = tlc.scratch_dir()
    try:
        n_gen = 40 if tier == "quick" else 1000
        docs, gen_states = _gen_many(n_gen, seed, wd)
        lines, paths = [], []
        for i, (name, path, doc) in enumerate(fmt.shipped_bases()):
            lines.append(dict(id=i + 1, kind="valid", rule="none", pos=0, doc=doc, name=name))
            paths.append(path)
        # the hand-written corpus as documents (name clashes across namespaces, unordered hosts, two-digit
        # host ids in deny-lists, ...)
        corpus_paths = []
        for j, n in enumerate(sorted(fmt.corpus.SPECS)):
            sp = fmt.corpus.yaml_variant(fmt.corpus.SPECS[n])
            p = fmt.corpus.write_yaml(sp, os.path.join(wd, sp["name"] + ".yaml"))
            import yaml as _yaml
            with open(p) as fh:
                doc = fmt.tag(_yaml.safe_load(fh))
            lines.append(dict(id=50 + j, kind="valid", rule="none", pos=0, doc=doc, name=sp["name"]))
            paths.append(p)
            corpus_paths.append(p)
        for j, doc in enumerate(docs):
            p = fmt.render_yaml(doc, os.path.join(wd, "doc%d.yaml" % j))
            lines.append(dict(id=100 + j, kind="valid", rule="none", pos=0, doc=doc, name="generated-%d" % j))
            paths.append(p)
        # the same documents with the eval()-ed keys spelled "(a,b)" / "(+a, b)"
        for j, ln in enumerate(list(lines)):
            if j % 3:
                continue
            d2 = fmt.respell(ln["doc"], ["tight", "plus"][(j // 3) % 2])
            p = fmt.render_yaml(d2, os.path.join(wd, "respelled%d.yaml" % j), alias=False)
            lines.append(dict(id=5000 + j, kind="valid", rule="none", pos=0, doc=d2, name=ln["name"] + "-respelled"))
            paths.append(p)
        loaded = fmt.load_all(paths)
        for ln, L in zip(lines, loaded):
            ln["loaded"] = L
        cwd = os.path.join(wd, "chk")
        os.makedirs(cwd)
        r, bad = fmt.check_lines(lines, cwd)
        for b in bad:
            v.machinery.append("generated document %s is not valid by the specification (%s)" % (b[1], b[2]))
        fails = [f for f in r.fails() if f[0] == "C17"]
        by_id = {ln["id"]: (ln, p) for ln, p in zip(lines, paths)}
        os.makedirs(common.REPLAY_DIR, exist_ok=True)
        for (p_, clause, i) in fails:
            ln, path = by_id[i]
            rp = os.path.join(common.REPLAY_DIR, "C17-%s.yaml" % ln["name"])
            shutil.copy(path, rp)
            with open(rp + ".line.json", "w") as fh:
                json.dump(ln, fh)
            v.violation("C17: %s on document %s (loader: %s)" % (clause, ln["name"],
                                                                  {k: ln["loaded"].get(k) for k in ("ok", "exc", "msg")}), rp)
        # enforcement half: environments built from the documents are driven and validated against the
        # scenario read independently from the same file
        jobs = []
        small = [(ln, p) for ln, p in zip(lines, paths) if ln["id"] >= 100 and ln["loaded"].get("ok")]
        take = small[: (6 if tier == "quick" else 60)]
        for ln, p in take:
            if _n_hosts(ln["doc"]) <= 3:
                jobs.append(dict(src=("yaml_file", p), exhaustive=True, max_states=30, foreign=False, extras=False))
            else:
                jobs.append(dict(src=("yaml_file", p), random_steps=300, seed=seed + ln["id"], extras=False))
        for p in corpus_paths:
            small = any(p.endswith(x + "_yaml.yaml") for x in ("deny", "two_layer", "unordered_chain"))
            big = p.endswith("wide_yaml.yaml") or p.endswith("big68_yaml.yaml")      # too large to explore exhaustively
            if small or (tier != "quick" and not big):
                jobs.append(dict(src=("yaml_file", p), exhaustive=True, foreign=False, extras=False))
            elif (big and (tier != "quick" or p.endswith("wide_yaml.yaml"))) or p.endswith("name_clash_yaml.yaml"):
                jobs.append(dict(src=("yaml_file", p), random_steps=500, seed=seed + 11, extras=False))
        for n in (["tiny", "medium-multi-site"] if tier == "quick" else fmt.corpus.YAML_BENCHMARKS):
            jobs.append(dict(src=("bench_yaml", n), random_steps=400 if tier == "quick" else 1500, seed=seed + 7))
        results = dynamic.run_jobs(jobs, procs=8)
        events = 0
        enforce_fail = collections.Counter()
        for res in results:
            if res["machinery"]:
                v.machinery.append("%s: %s" % (res["name"], res["machinery"][-400:]))
                continue
            events += res["events"]
            bad_c = [f for f in res["fails"] if f[0] in ("C01", "C02", "C03", "C05", "C06")]
            if bad_c:
                enforce_fail[(res["name"], bad_c[0][0] + "." + bad_c[0][1])] += len(bad_c)
                v.violation("C17: environment built from %s does not enforce the file: %s.%s fails at call %d" % (
                    res["name"], bad_c[0][0], bad_c[0][1], bad_c[0][2]), res.get("replay", "?"))
        sample = dict(document=fmt.untag(docs[0])) if docs else dict(document="tiny.yaml")
        cov = dict(states=gen_states + r.generated, transitions=gen_states + r.generated,
                   traces_validated_against_impl=len(lines), evaluations=len(lines) * 13,
                   distinct_nontrivial=len(set(json.dumps(ln["doc"], sort_keys=True) for ln in lines)),
                   documents_generated_by_tlc=len(docs), shipped_documents=9,
                   loader_refused=sum(1 for ln in lines if not ln["loaded"].get("ok")),
                   enforcement_recorded_calls=events, enforcement_scenarios=len(jobs),
                   rule="documents = 9 shipped files (tagged by the harness's own YAML reader) + documents built by the "
                        "TLA+ generator DocGen under tlc -simulate (valid by ScenarioFormat!Valid, checked as an "
                        "invariant); each is rendered to YAML, loaded by the real loader, exported, and TLC evaluates "
                        "13 field clauses loaded = Interp(doc); traces_validated_against_impl = documents; "
                        "distinct_nontrivial = distinct documents; enforcement: environments of a subset are driven and "
                        "validated by the trace monitor against the scenario read from the document",
                   samples=[sample], failed_clauses={"%s" % (k,): n for k, n in collections.Counter(
                       (c, by_id[i][0]["name"]) for (_, c, i) in fails).items()},
                   enforcement_failures={"%s/%s" % k: n for k, n in enforce_fail.items()})
        common.write_evidence(prop, tier, seed, "model_checking", cov, time.time() - t0, len(v.violations))
        return v.finish()
    finally:
        shutil.rmtree(wd, ignore_errors=True)


def pick_rich(docs, k):
    """generated documents that have escalations, a host firewall and a step limit (so that every rule has a position)"""
    def rich(d):
        m = dict((kk.get("v"), vv) for kk, vv in zip(d["k"], d["v"]) if kk["t"] == "str")
        if "step_limit" not in m or not m["privilege_escalation"]["k"]:
            return False
        return any(any(x.get("v") == "firewall" and c["v"][i]["k"] for i, x in enumerate(c["k"]))
                   for c in m["host_configurations"]["v"])
    out = [d for d in docs if rich(d)]
    return (out + [d for d in docs if not rich(d)])[:k]


def check_c18(prop, tier, seed):
    v = Verdict(prop)
    t0 = time.time()
    wd = tlc.scratch_dir()
    try:
        docs, gen_states = _gen_many(24 if tier == "quick" else 120, seed + 3, wd)
        shipped = fmt.shipped_bases()
        if tier == "quick":
            bases = [(i + 1, d, n) for i, (n, p, d) in enumerate(shipped) if n in ("tiny", "small-honeypot")]
            bases += [(100 + j, d, "generated-%d" % j) for j, d in enumerate(pick_rich(docs, 3))]
        else:
            bases = [(i + 1, d, n) for i, (n, p, d) in enumerate(shipped)]
            bases += [(100 + j, d, "generated-%d" % j) for j, d in enumerate(pick_rich(docs, 40))]
        # every base also with its eval()-ed keys spelled "(a,b)"
        bases += [(1000 + i, fmt.respell(d, "tight"), n + "-respelled") for i, d, n in list(bases)
                  if n in ("tiny", "generated-0") or tier != "quick"]
        # a base whose topology declares one link in one direction only (still a valid document)
        for i, d, n in list(bases):
            if n == "tiny":
                ad = fmt.asymmetric_topology(d)
                if ad is not None:
                    bases.append((2000 + i, ad, n + "-one-directional-link"))
                sd = fmt.superfluous_rule(d)
                if sd is not None:
                    bases.append((3000 + i, sd, n + "-superfluous-rule"))
        mwd = os.path.join(wd, "mut")
        os.makedirs(mwd)
        muts, rgen = fmt.gen_mutants([(i, d) for i, d, n in bases], mwd)
        names = {i: n for i, d, n in bases}
        lines, paths, primers, primer_lines = [], [], [], []
        for j, (bid, rule, pos, fgroup, rgroup, doc) in enumerate(muts):
            p = fmt.render_yaml(doc, os.path.join(wd, "m%d.yaml" % j))
            lines.append(dict(id=j + 1, kind="mutant", rule=rule, pos=pos, doc=doc, base=names[bid], fgroup=fgroup,
                              rgroup=rgroup))
            paths.append(p)
            if rule in fmt.UNKNOWN_NAME_RULES and "zz_unknown" in json.dumps(doc):
                # the same document with the unknown name declared (valid), loaded first in the same process
                pd = fmt.primer_of(doc)
                primers.append(fmt.render_yaml(pd, os.path.join(wd, "p%d.yaml" % j)))
                primer_lines.append(dict(id=0, kind="valid", rule="none", pos=0, doc=pd, base=names[bid],
                                         loaded=dict(ok=True)))
            else:
                primers.append(None)
        loaded = fmt.load_pairs(list(zip(primers, paths)))
        pi_ = 0
        for ln, L, pp in zip(lines, loaded, primers):
            if pp:
                primer_lines[pi_]["loaded"] = L.pop("primer_loaded")
                pi_ += 1
            ln["loaded"] = L
        # the primers are valid documents by the specification (machinery check; their loading is a C17 matter)
        pwd_ = os.path.join(wd, "primers")
        os.makedirs(pwd_)
        for k_, pl in enumerate(primer_lines[:: max(1, len(primer_lines) // 40)]):
            pl["id"] = k_ + 1
        sample_primers = [pl for pl in primer_lines if pl["id"]]
        if sample_primers:
            _, pbad = fmt.check_lines(sample_primers, pwd_)
            for b in pbad:
                v.machinery.append("primer document %s is not valid by the specification (%s)" % (b[1], b[0]))
        primers_refused = sum(1 for L in loaded if L.get("primer_ok") is False)
        cwd = os.path.join(wd, "chk")
        os.makedirs(cwd)
        r, bad = fmt.check_lines(lines, cwd)
        for b in bad:
            v.machinery.append("mutant %s (%s) is still valid by the specification" % (b[1], b[2]))
        wrong_group = [ln for ln in lines if ln["fgroup"] != ln["rgroup"]]
        fails = [f for f in r.fails() if f[0] == "C18"]
        kf = common.open_findings(prop)
        os.makedirs(common.REPLAY_DIR, exist_ok=True)
        per_rule = collections.Counter(ln["rule"] for ln in lines)
        failed_rules = collections.Counter()
        for (_, clause, i) in fails:
            ln = lines[i - 1]
            failed_rules[ln["rule"]] += 1
            known = [k for k in kf if k["signature"] == ln["rule"]]
            if known:
                v.known.append(known[0]["what"])
                continue
            rp = os.path.join(common.REPLAY_DIR, "C18-%s-%s-%d.yaml" % (ln["base"], ln["rule"], ln["pos"]))
            shutil.copy(paths[i - 1], rp)
            v.violation("C18: a document breaking rule %s (position %d of base %s) was accepted by the loader" % (
                ln["rule"], ln["pos"], ln["base"]), rp)
        v.known = sorted(set(v.known))
        sample = lines[0] if lines else {}
        cov = dict(states=gen_states + rgen.generated + r.generated, transitions=gen_states + rgen.generated + r.generated,
                   traces_validated_against_impl=len(lines), evaluations=len(lines),
                   distinct_nontrivial=len(per_rule), rules_in_catalogue=len(per_rule), bases=[n for _, _, n in bases],
                   mutants_per_rule=dict(per_rule), accepted_by_loader=dict(failed_rules),
                   mutants_failing_in_another_group=len(wrong_group), exhaustive=True,
                   primed_mutants=sum(1 for p_ in primers if p_), primers_refused_by_loader=primers_refused,
                   rule="for every base document (shipped + TLC-generated) TLC enumerates base x rule x position of "
                        "the catalogue (ScenarioFormat!Break); each broken document is asserted ~Valid by the "
                        "specification, rendered to YAML and given to the real loader, which must raise; "
                        "distinct_nontrivial = rules of the catalogue with at least one broken document",
                   samples=[dict(rule=sample.get("rule"), base=sample.get("base"), position=sample.get("pos"),
                                 loader=sample.get("loaded"), document=fmt.untag(sample["doc"]) if sample else None)])
        common.write_evidence(prop, tier, seed, "model_checking", cov, time.time() - t0, len(v.violations))
        return v.finish()
    finally:
        shutil.rmtree(wd, ignore_errors=True)


def replay_doc(prop, path):
    """load the saved YAML document with the real loader again and let TLC judge it"""
    import yaml
    wd = tlc.scratch_dir()
    try:
        with open(path) as fh:
            doc = fmt.tag(yaml.safe_load(fh))
        L = fmt.load_one(path)
        tlc.prepare(wd)
        import subprocess
        # is the document valid by the specification?  (decides which of C17 / C18 applies)
        kind = "valid" if prop == "C17" else "mutant"
        r, bad = fmt.check_lines([dict(id=1, kind=kind, rule="replayed", pos=0, doc=doc, loaded=L)], wd)
        print("loader: %s" % ({k: L.get(k) for k in ("ok", "exc", "msg")},))
        for b in bad:
            print("note: %s" % (b,))
        mine = [f for f in r.fails() if f[0] == prop]
        for f in mine:
            print("FAIL %s %s" % (f[0], f[1]))
        if mine:
            print("VIOLATION property=%s replay=%s" % (prop, path))
            return 1
        print("OK property=%s (replay)" % prop)
        return 0
    finally:
        shutil.rmtree(wd, ignore_errors=True)
