"""Spec => code for the generator: behaviours of spec/Generator.tla (every random draw a nondeterministic choice)
are replayed into the real ScenarioGenerator through a scripted numpy.random that returns what the model's tape
says, call by call.  The real result is exported and judged by GenWellFormed (C15); agreement of the real result
with the model's result is reported as conformance (DRIFT when it fails: the operational model is out of date)."""
import contextlib
import json
import os
import re
import sys

import numpy as np

from harness import tlc, corpus

CFG = """SPECIFICATION Spec
VIEW GenView
CONSTANTS
 NH = %(NH)d
 NS = %(NS)d
 NOS = %(NOS)d
 NP = %(NP)d
 NE = %(NE)d
 NPE = %(NPE)d
 R = %(R)d
 Uniform = %(Uniform)s
 AlphaVOne = %(AlphaVOne)s
 RandomGoal = %(RandomGoal)s
INVARIANT NeverStuck
INVARIANT NeverCrashed
INVARIANT WellFormed
INVARIANT Solvable
%(emit)s
CHECK_DEADLOCK FALSE
"""


def cfg_text(c, emit):
    d = dict(c)
    for k in ("Uniform", "AlphaVOne", "RandomGoal"):
        d[k] = "TRUE" if c[k] else "FALSE"
    d["emit"] = "INVARIANT EmitDone" if emit is True else ""
    txt = CFG % d
    if emit == "bad":      # list the stuck / crashed states instead of stopping at the first
        txt = txt.replace("INVARIANT NeverStuck\n", "").replace("INVARIANT NeverCrashed\n", "INVARIANT EmitBad\n")
    return txt


def exhaustive(c, workdir, workers=4, timeout=3000):
    tlc.prepare(workdir)
    return tlc.run(workdir, "Generator", cfg_text(c, False), workers=workers, timeout=timeout, heap="10g")


def simulate(c, n, seed, workdir, timeout=900):
    """n behaviours of the model; returns the distinct complete ones as dicts (tape + what the model produced)"""
    tlc.prepare(workdir)
    r = tlc.run(workdir, "Generator", cfg_text(c, True), workers=1, simulate="num=%d" % n, depth=400,
                extra_args=["-seed", str(seed + 1)], timeout=timeout, heap="4g")
    out, seen = [], set()
    for m in re.finditer(r'<<\s*"TAPE",\s*"((?:[^"\\]|\\.)*)"\s*>>', r.out):
        s = m.group(1)
        if s in seen:
            continue
        seen.add(s)
        out.append(json.loads(json.loads('"' + s + '"')))
    return out, r


class TapeMismatch(Exception):
    pass


class TapeRNG:
    def __init__(self, tape):
        self.tape = list(tape)
        self.pos = 0

    def _next(self, kind):
        if self.pos >= len(self.tape):
            raise TapeMismatch("tape exhausted at a %s call" % kind)
        k, v = self.tape[self.pos]
        self.pos += 1
        if k != kind:
            raise TapeMismatch("call %d is %s but the model expects %s" % (self.pos, kind, k))
        return v

    def choice(self, a, size=None, replace=True, p=None):
        if size is not None:
            idxs = self._next("choice_n")
            if len(idxs) != int(size):
                raise TapeMismatch("sized choice of %s but the model drew %d" % (size, len(idxs)))
            seq = list(range(a)) if isinstance(a, (int, np.integer)) else list(a)
            return [seq[i] for i in idxs]
        i = self._next("choice")
        if isinstance(a, (int, np.integer)):
            if not 0 <= i < int(a):
                raise TapeMismatch("choice(%s) but the model drew %d" % (a, i))
            return int(i)
        seq = list(a)
        if not 0 <= i < len(seq):
            raise TapeMismatch("choice over %d candidates but the model drew %d" % (len(seq), i))
        return seq[i]

    def randint(self, low, high=None, size=None):
        v = self._next("randint")
        lo, hi = (0, low) if high is None else (low, high)
        if not lo <= v < hi:
            raise TapeMismatch("randint(%s, %s) but the model drew %d" % (lo, hi, v))
        return int(v)

    def rand(self, *a):
        return 0.0 if self._next("rand") else 0.999999

    def poisson(self, lam=1.0, size=None):
        return int(self._next("poisson"))

    def random_sample(self, size=None):
        raise TapeMismatch("random_sample is not modelled")

    def seed(self, *a, **k):
        return None


@contextlib.contextmanager
def scripted(rng):
    saved = {}
    for n in ("choice", "randint", "rand", "poisson", "random_sample", "seed"):
        saved[n] = getattr(np.random, n)
        setattr(np.random, n, getattr(rng, n))
    try:
        yield
    finally:
        for n, f in saved.items():
            setattr(np.random, n, f)


def params_of(c):
    return dict(num_hosts=c["NH"], num_services=c["NS"], num_os=c["NOS"], num_processes=c["NP"],
                num_exploits=c["NE"], num_privescs=c["NPE"], restrictiveness=c["R"], uniform=bool(c["Uniform"]),
                alpha_V=1.0 if c["AlphaVOne"] else 2.0, alpha_H=2.0, lambda_V=1.0, random_goal=bool(c["RandomGoal"]),
                exploit_probs=1.0, privesc_probs=1.0, seed=None)


def replay(c, beh):
    """run the real generator along the model behaviour `beh`; returns (status, scenario or message, conforms)"""
    sys.path[:0] = [p for p in (corpus.REPO,) if p not in sys.path]
    import nasim
    rng = TapeRNG(beh["tape"])
    try:
        with scripted(rng):
            scn = nasim.generate_scenario(**params_of(c))
    except TapeMismatch as ex:
        return "mismatch", str(ex), False
    except Exception as ex:      # noqa
        return "raised", "%s: %s" % (type(ex).__name__, str(ex)[:160]), False
    if rng.pos != len(rng.tape):
        return "mismatch", "the generator made %d draws, the model %d" % (rng.pos, len(rng.tape)), False
    return "ok", scn, conforms(c, beh, scn)


def conforms(c, beh, scn):
    """does the real scenario equal what the model produced along the same draws?"""
    d = scn.scenario_dict
    srv, os_, proc = d["services"], d["os"], d["processes"]
    ex = [dict(srv=srv.index(e["service"]) + 1, os=0 if e["os"] is None else os_.index(e["os"]) + 1, acc=int(e["access"]))
          for e in d["exploits"].values()]
    pe = [dict(proc=proc.index(e["process"]) + 1, os=0 if e["os"] is None else os_.index(e["os"]) + 1)
          for e in d["privilege_escalation"].values()]
    if ex != beh["exploits"] or pe != beh["privescs"]:
        return False
    addrs = list(d["host"].keys())
    if [a in d["sensitive_hosts"] for a in addrs] != beh["sens"]:
        return False
    for a, mh in zip(addrs, beh["hosts"]):
        h = d["host"][a]
        if [bool(h.os[o]) for o in os_].index(True) + 1 != mh["os"]:
            return False
        if [bool(h.services[s]) for s in srv] != mh["srvs"] or [bool(h.processes[p]) for p in proc] != mh["procs"]:
            return False
    pairs = [(0, 1), (1, 0), (1, 2), (1, 3), (2, 1), (2, 3), (3, 1), (3, 2)]
    for p, row in zip(pairs, beh["fw"]):
        if [s in d["firewall"][p] for s in srv] != row:
            return False
    return True


def bad_tapes(c, workdir, timeout=900):
    """tapes of the model's stuck / crashed states (exhaustive run that does not stop at the first)"""
    tlc.prepare(workdir)
    r = tlc.run(workdir, "Generator", cfg_text(c, "bad"), workers=1, timeout=timeout, heap="6g")
    out = []
    for m in re.finditer(r'<<\s*"BADTAPE",\s*(TRUE|FALSE),\s*(TRUE|FALSE),\s*"([a-z]+)",\s*"((?:[^"\\]|\\.)*)"\s*>>', r.out):
        out.append(dict(stuck=m.group(1) == "TRUE", crashed=m.group(2) == "TRUE", phase=m.group(3),
                        tape=json.loads(json.loads('"' + m.group(4) + '"'))["tape"]))
    return out, r


class FallbackRNG(TapeRNG):
    """follows the tape, then keeps answering deterministically so that a run-away loop meets the draw bound"""

    def __init__(self, tape, bound=20000):
        TapeRNG.__init__(self, tape)
        self.extra = 0
        self.bound = bound

    def _more(self):
        self.extra += 1
        if self.extra > self.bound:
            from harness.gen import DrawBoundExceeded
            raise DrawBoundExceeded("more than %d draws after the model's tape" % self.bound)
        return self.extra

    def choice(self, a, size=None, replace=True, p=None):
        if self.pos < len(self.tape):
            return TapeRNG.choice(self, a, size, replace, p)
        k = self._more()
        seq = list(range(a)) if isinstance(a, (int, np.integer)) else list(a)
        if size is not None:
            return [seq[(k + i) % len(seq)] for i in range(int(size))]
        return seq[k % len(seq)]

    def randint(self, low, high=None, size=None):
        if self.pos < len(self.tape):
            return TapeRNG.randint(self, low, high, size)
        lo, hi = (0, low) if high is None else (low, high)
        return lo + self._more() % max(1, hi - lo)

    def rand(self, *a):
        if self.pos < len(self.tape):
            return TapeRNG.rand(self, *a)
        return (self._more() % 10) / 10.0

    def poisson(self, lam=1.0, size=None):
        if self.pos < len(self.tape):
            return TapeRNG.poisson(self, lam, size)
        return self._more() % 3


def replay_bad(c, tape):
    """does the real generator reproduce the fault the model reaches along `tape`?"""
    sys.path[:0] = [p for p in (corpus.REPO,) if p not in sys.path]
    import nasim
    from harness.gen import DrawBoundExceeded
    rng = FallbackRNG(tape)
    try:
        with scripted(rng):
            nasim.generate_scenario(**params_of(c))
    except TapeMismatch as ex:
        return "mismatch", str(ex)
    except DrawBoundExceeded as ex:
        return "draw_bound", str(ex)
    except Exception as ex:      # noqa
        return "raised", "%s: %s" % (type(ex).__name__, str(ex)[:160])
    return "returned", ""
