"""TLAPS proof of spec/NASimProof.tla: the inductive argument of NASimSym for scenarios of ANY size (design level).
Returns dict(proved=bool, obligations=int, seconds=float, tail=str); thorough also shows that the proof is not
vacuous: a variant whose exploit forgets to update reachability must NOT be provable."""
import os
import re
import shutil
import subprocess
import time

from harness import tlc


def _tlapm(wd, module):
    t0 = time.time()
    try:
        p = subprocess.run(["tlapm", "--cleanfp", module + ".tla"], cwd=wd, stdout=subprocess.PIPE,
                           stderr=subprocess.STDOUT, text=True, timeout=900)
        out = p.stdout
    except Exception as ex:      # noqa
        out = "tlapm did not run: %s" % ex
    m = re.search(r"All (\d+) obligations? proved", out)
    return dict(proved=bool(m), obligations=int(m.group(1)) if m else 0, seconds=round(time.time() - t0, 1),
                tail="" if m else out[-500:])


def run(negative=False):
    wd = tlc.scratch_dir()
    try:
        shutil.copy(os.path.join(tlc.SPEC_DIR, "NASimProof.tla"), wd)
        res = _tlapm(wd, "NASimProof")
        if negative:
            src = open(os.path.join(wd, "NASimProof.tla")).read()
            good = "    /\\ reach' = [h \\in HostSet |-> reach[h] \\/ Connected(t[1], h[1])]"
            assert good in src
            with open(os.path.join(wd, "NASimProofBroken.tla"), "w") as fh:
                fh.write(src.replace(good, "    /\\ UNCHANGED reach").replace("MODULE NASimProof", "MODULE NASimProofBroken"))
            res["broken_variant_refused"] = not _tlapm(wd, "NASimProofBroken")["proved"]
        return res
    finally:
        shutil.rmtree(wd, ignore_errors=True)
