"""Apalache obligations on spec/NASimSym.tla: the scenario is symbolic, so the result holds for every scenario up
to the bound (design level).  Returns [(name, discharged?, seconds)]."""
import concurrent.futures as cf
import os
import shutil
import subprocess
import time

from harness import tlc

OBLIGATIONS = [
    ("Init => IndInv", ["--init=Init", "--inv=IndInv", "--length=0"]),
    ("IndInv /\\ Next => IndInv'", ["--init=IndInit", "--inv=IndInv", "--length=1"]),
    ("IndInv /\\ Next => Monotone", ["--init=IndInit", "--inv=Monotone", "--length=1"]),
]


def _one(args):
    name, flags, wd = args
    t0 = time.time()
    out = os.path.join(wd, "out-%d" % abs(hash(name)))
    try:
        p = subprocess.run(["apalache-mc", "check", "--cinit=ConstInit"] + flags + ["--out-dir=" + out, "NASimSym.tla"],
                           cwd=wd, stdout=subprocess.PIPE, stderr=subprocess.STDOUT, text=True, timeout=600)
        ok = "The outcome is: NoError" in p.stdout
        return (name, ok, round(time.time() - t0, 1), "" if ok else p.stdout[-600:])
    except Exception as ex:      # noqa
        return (name, False, round(time.time() - t0, 1), str(ex))


def run(which=None):
    wd = tlc.scratch_dir()
    try:
        shutil.copy(os.path.join(tlc.SPEC_DIR, "NASimSym.tla"), wd)
        obs = [o for o in OBLIGATIONS if which is None or o[0] in which]
        with cf.ThreadPoolExecutor(max_workers=3) as ex:
            return list(ex.map(_one, [(n, f, wd) for n, f in obs]))
    finally:
        shutil.rmtree(wd, ignore_errors=True)
