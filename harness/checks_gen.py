"""C15 (the generator returns a well-formed scenario for every valid parameter set) and C14 (seeded runs and
seeded generation are reproducible)."""
import collections
import json
import multiprocessing as mp
import os
import random
import shutil
import subprocess
import sys
import time

from harness import common, tlc, corpus, gen
from harness.common import Verdict
from harness.export import milli, ppm

GEN_BENCH = ["tiny-gen", "tiny-gen-rgoal", "small-gen", "small-gen-rgoal", "medium-gen", "large-gen", "huge-gen",
             "pocp-1-gen", "pocp-2-gen"]
DEFAULTS = dict(num_os=2, num_processes=2, num_exploits=None, num_privescs=None, r_sensitive=10, r_user=10,
                exploit_cost=1, exploit_probs=1.0, privesc_cost=1, privesc_probs=1.0, service_scan_cost=1,
                os_scan_cost=1, subnet_scan_cost=1, process_scan_cost=1, uniform=False, alpha_H=2.0, alpha_V=2.0,
                lambda_V=1.0, restrictiveness=5, random_goal=False, base_host_value=1, host_discovery_value=1,
                seed=None, step_limit=None, address_space_bounds=None)


def bench_params(name, seed):
    sys.path[:0] = [p for p in (corpus.REPO,) if p not in sys.path]
    from nasim.scenarios.benchmark.generated import AVAIL_GEN_BENCHMARKS
    p = dict(AVAIL_GEN_BENCHMARKS[name])
    p.pop("name", None)
    p["seed"] = seed
    return p


def random_params(rng, i):
    """a parameter set drawn from the documented domain (counts that can be realised with distinct definitions)"""
    nh = rng.choice([3, 3, 4, 5]) if rng.random() < 0.25 else rng.randint(3, 45)
    ns = rng.randint(1, 6)
    nos = rng.randint(1, 4)
    nproc = rng.randint(1, 3)
    ne = rng.choice([None, rng.randint(1, min(8, ns * (nos + 1)))])
    npe = rng.choice([None, rng.randint(1, min(5, nproc * (nos + 1)))])
    nex = ns if ne is None else ne
    npx = nproc if npe is None else npe

    def probs(n, mixed_ok):
        c = rng.choice(["one", "float", "list", "none"] + (["mixed"] if mixed_ok else []))
        if c == "one":
            return 1.0
        if c == "float":
            return rng.choice([0.25, 0.5, 0.9])
        if c == "list":
            return [rng.choice([0.1, 0.5, 1.0]) for _ in range(n)]
        if c == "mixed":
            return "mixed"
        return None
    p = dict(num_hosts=nh, num_services=ns, num_os=nos, num_processes=nproc, num_exploits=ne, num_privescs=npe,
             r_sensitive=rng.choice([10, 100, 7.5]), r_user=rng.choice([10, 50, 2.5]),
             exploit_cost=rng.choice([1, 2, 1.5]), exploit_probs=probs(nex, True),
             privesc_cost=rng.choice([1, 3]), privesc_probs=probs(npx, False),
             service_scan_cost=rng.choice([1, 2]), os_scan_cost=rng.choice([1, 0.5]),
             subnet_scan_cost=rng.choice([1, 3]), process_scan_cost=rng.choice([1, 0]),
             uniform=rng.random() < 0.4, alpha_H=rng.choice([0.5, 1.0, 2.0, 5.0]),
             alpha_V=rng.choice([0.5, 1.0, 2.0, 3.5]), lambda_V=rng.choice([0.5, 1.0, 3.0]),
             restrictiveness=rng.randint(1, ns + 1), random_goal=rng.random() < 0.3,
             base_host_value=rng.choice([1, 0, 0.5]), host_discovery_value=rng.choice([1, 0, 2]),
             seed=10000 + i, step_limit=rng.choice([None, 200]),
             address_space_bounds=None)
    if rng.random() < 0.2:
        p["address_space_bounds"] = (40, 8)
    return p


def params_record(p):
    """the parameter set as a JSON record for GenWellFormed.tla (defaults filled in, milli / ppm units)"""
    q = dict(DEFAULTS)
    q.update(p)

    def spec(x):
        if x is None:
            return dict(kind="none")
        if x == "mixed":
            return dict(kind="mixed")
        if isinstance(x, list):
            return dict(kind="list", values=[ppm(v) for v in x])
        return dict(kind="float", value=ppm(x))
    b = q["address_space_bounds"]
    return dict(num_hosts=q["num_hosts"], num_services=q["num_services"], num_os=q["num_os"],
                num_processes=q["num_processes"],
                num_exploits=-1 if q["num_exploits"] is None else q["num_exploits"],
                num_privescs=-1 if q["num_privescs"] is None else q["num_privescs"],
                r_sensitive=milli(q["r_sensitive"]), r_user=milli(q["r_user"]),
                exploit_cost=milli(q["exploit_cost"]), privesc_cost=milli(q["privesc_cost"]),
                exploit_probs=spec(q["exploit_probs"]), privesc_probs=spec(q["privesc_probs"]),
                service_scan_cost=milli(q["service_scan_cost"]), os_scan_cost=milli(q["os_scan_cost"]),
                subnet_scan_cost=milli(q["subnet_scan_cost"]), process_scan_cost=milli(q["process_scan_cost"]),
                restrictiveness=q["restrictiveness"], random_goal=bool(q["random_goal"]),
                uniform=bool(q["uniform"]), alpha_V=milli(q["alpha_V"]), alpha_H=milli(q["alpha_H"]),
                lambda_V=milli(q["lambda_V"]),
                base_host_value=milli(q["base_host_value"]), host_discovery_value=milli(q["host_discovery_value"]),
                step_limit=-1 if q["step_limit"] is None else q["step_limit"],
                bounds_given=b is not None, bounds=list(b) if b is not None else [0, 0],
                seed=-1 if q.get("seed") is None else q["seed"])


def export_generated(scn):
    d = scn.scenario_dict

    def act(n, e, what):
        return dict(name=str(n), target=str(e[what]), os="<none>" if e["os"] is None else str(e["os"]),
                    prob=ppm(e["prob"]), cost=milli(e["cost"]), access=int(e["access"]))
    hosts = [[[int(a[0]), int(a[1])],
              dict(os=[k for k, v in h.os.items() if v], srvs=[k for k, v in h.services.items() if v],
                   procs=[k for k, v in h.processes.items() if v], value=milli(h.value),
                   dvalue=milli(h.discovery_value))] for a, h in d["host"].items()]
    b = d.get("address_space_bounds")
    return dict(ok=True, subnets=[int(x) for x in d["subnets"]],
                topology=[[int(c) for c in row] for row in d["topology"]],
                os=[str(x) for x in d["os"]], services=[str(x) for x in d["services"]],
                processes=[str(x) for x in d["processes"]],
                sens=[[[int(a[0]), int(a[1])], milli(v)] for a, v in d["sensitive_hosts"].items()],
                exploits=[act(n, e, "service") for n, e in d["exploits"].items()],
                privescs=[act(n, e, "process") for n, e in d["privilege_escalation"].items()],
                scan=[milli(d["service_scan_cost"]), milli(d["os_scan_cost"]), milli(d["subnet_scan_cost"]),
                      milli(d["process_scan_cost"])],
                hosts=hosts, fw=[[[int(k[0]), int(k[1])], sorted(str(x) for x in v)] for k, v in d["firewall"].items()],
                step_limit=-1 if d.get("step_limit") is None else int(d["step_limit"]),
                bounds=[int(b[0]), int(b[1])] if b is not None else [0, 0])


def _gen_one(p):
    kind, payload, n = gen.generate_watched(p, bound=gen.DRAW_BOUND, timeout=180)
    if kind == "ok":
        try:
            r = export_generated(payload)
            r["draws"] = n
            return r
        except Exception as ex:      # noqa
            return dict(ok=False, kind="raised", msg="export failed: %s" % ex, exc=type(ex).__name__)
    exc = payload.split(":")[0] if kind == "raised" else kind
    return dict(ok=False, kind=kind, msg=str(payload)[:200], exc=exc)


def _gen_reuse(plist):
    """ONE ScenarioGenerator object asked for several scenarios in a row (different shapes): each result is judged
    like any other; what an earlier call left behind in the object must not leak into a later one"""
    sys.path[:0] = [p for p in (corpus.REPO,) if p not in sys.path]
    from nasim.scenarios.generator import ScenarioGenerator
    g = ScenarioGenerator()
    out = []
    for p in plist:
        try:
            with gen.counted_rng(gen.DRAW_BOUND) as st:
                scn = g.generate(**p)
            r = export_generated(scn)
            r["draws"] = st["n"]
        except gen.DrawBoundExceeded as ex:
            r = dict(ok=False, kind="draw_bound", msg=str(ex)[:200], exc="draw_bound")
        except Exception as ex:      # noqa
            r = dict(ok=False, kind="raised", msg="%s: %s" % (type(ex).__name__, str(ex)[:200]), exc=type(ex).__name__)
        out.append(r)
    return out


def kf_signature_c15(params, result):
    """signatures of the open known findings of C15"""
    if (not result["ok"]) and result.get("exc") == "ZeroDivisionError" and not params.get("uniform", False) \
            and abs(float(params.get("alpha_V", 2.0)) - 1.0) < 1e-12:
        return "KF_AlphaVOne"
    return None


OP_CONFIGS_QUICK = [
    dict(NH=3, NS=1, NOS=1, NP=1, NE=1, NPE=1, R=1, Uniform=True, AlphaVOne=False, RandomGoal=False),
    dict(NH=3, NS=2, NOS=1, NP=1, NE=2, NPE=1, R=1, Uniform=False, AlphaVOne=False, RandomGoal=False),
    dict(NH=3, NS=1, NOS=2, NP=1, NE=2, NPE=2, R=1, Uniform=False, AlphaVOne=False, RandomGoal=True),
]
OP_CONFIGS_THOROUGH = OP_CONFIGS_QUICK + [
    dict(NH=3, NS=2, NOS=1, NP=2, NE=2, NPE=2, R=2, Uniform=True, AlphaVOne=False, RandomGoal=False),
    dict(NH=3, NS=2, NOS=2, NP=1, NE=2, NPE=2, R=1, Uniform=False, AlphaVOne=False, RandomGoal=False),
    dict(NH=4, NS=2, NOS=1, NP=1, NE=1, NPE=1, R=2, Uniform=False, AlphaVOne=False, RandomGoal=True),
]
OP_SIM_CONFIGS = [
    dict(NH=4, NS=2, NOS=2, NP=2, NE=2, NPE=2, R=1, Uniform=False, AlphaVOne=False, RandomGoal=True),
    dict(NH=5, NS=3, NOS=2, NP=2, NE=3, NPE=3, R=2, Uniform=True, AlphaVOne=False, RandomGoal=False),
    dict(NH=6, NS=2, NOS=3, NP=1, NE=4, NPE=2, R=2, Uniform=False, AlphaVOne=False, RandomGoal=False),
]
OP_KF_CONFIG = dict(NH=4, NS=1, NOS=2, NP=1, NE=1, NPE=1, R=1, Uniform=False, AlphaVOne=True, RandomGoal=False)


def _op_exhaustive(c):
    from harness import gentape
    wd = tlc.scratch_dir()
    try:
        r = gentape.exhaustive(c, wd, workers=4, timeout=3000)
        viol = [ln for ln in r.out.splitlines() if "is violated" in ln]
        bad = []
        if viol:
            bwd = os.path.join(wd, "bad")
            os.makedirs(bwd)
            bad, _ = gentape.bad_tapes(c, bwd)
        return dict(cfg=c, states=r.distinct, transitions=r.generated, violated=viol, completed=r.completed,
                    bad=bad[:3], tail=r.tail(12) if not r.completed and not viol else "")
    finally:
        shutil.rmtree(wd, ignore_errors=True)


def _op_simulate(args):
    from harness import gentape
    c, n, seed = args
    wd = tlc.scratch_dir()
    try:
        behs, r = gentape.simulate(c, n, seed, wd)
        out = []
        for b in behs:
            st, x, ok = gentape.replay(c, b)
            if st == "ok":
                out.append(dict(status=st, conforms=ok, result=export_generated(x), params=gentape.params_of(c)))
            else:
                out.append(dict(status=st, conforms=False, msg=x, params=gentape.params_of(c),
                                result=dict(ok=False, kind="raised" if st == "raised" else "mismatch", msg=x,
                                            exc=x.split(":")[0])))
        return dict(cfg=c, behaviours=out, states=r.generated, errors=r.errors[:2])
    finally:
        shutil.rmtree(wd, ignore_errors=True)


def operational_stage(tier, seed, v, kfs):
    """Generator.tla: every seed at once for tiny parameters (TLC, exhaustive) + model behaviours replayed into the
    real generator.  Returns (extra GEN_FILE lines, coverage dict)."""
    import concurrent.futures as cf
    from harness import gentape
    cfgs = OP_CONFIGS_QUICK if tier == "quick" else OP_CONFIGS_THOROUGH
    nsim = 40 if tier == "quick" else 400
    with cf.ProcessPoolExecutor(max_workers=4, mp_context=mp.get_context("fork")) as ex:
        f_ex = [ex.submit(_op_exhaustive, c) for c in cfgs + [OP_KF_CONFIG]]
        f_sim = [ex.submit(_op_simulate, (c, nsim, seed + i)) for i, c in enumerate(OP_SIM_CONFIGS)]
        exh = [f.result() for f in f_ex]
        sims = [f.result() for f in f_sim]
    states = transitions = 0
    notes = []
    for e in exh:
        states += e["states"]
        transitions += e["transitions"]
        c = e["cfg"]
        if not e["violated"]:
            if not e["completed"]:
                v.machinery.append("Generator.tla did not complete for %s: %s" % (c, e["tail"]))
            continue
        # the model reaches a stuck / crashed / ill-formed state: only a fault the REAL generator reproduces
        # along that tape is reported
        reproduced = None
        for b in e["bad"]:
            st, msg = gentape.replay_bad(c, b["tape"])
            if st in ("raised", "draw_bound"):
                reproduced = (st, msg, b)
                break
        if reproduced is None:
            notes.append("model of %s violates %s but the real generator does not reproduce it (DRIFT)" % (c, e["violated"][:1]))
            continue
        st, msg, b = reproduced
        if c["AlphaVOne"] and "ZeroDivisionError" in msg and "KF_AlphaVOne" in kfs:
            v.known.append(kfs["KF_AlphaVOne"]["what"])
            continue
        rp = os.path.join(common.REPLAY_DIR, "C15-tape-%s.json" % "-".join(str(c[k]) for k in sorted(c)))
        os.makedirs(common.REPLAY_DIR, exist_ok=True)
        with open(rp, "w") as fh:
            json.dump(dict(params=gentape.params_of(c), tape=b["tape"], model=e["violated"], real=[st, msg]), fh)
        v.violation("C15: for SOME seed the generator %s with parameters %s (reached in Generator.tla in phase %s and "
                    "reproduced on the real generator along the model's draw tape): %s" % (
                        "does not terminate" if st == "draw_bound" else "raises", gentape.params_of(c), b["phase"], msg), rp)
    lines = []
    nconf = nbeh = 0
    for s in sims:
        states += s["states"]
        for b in s["behaviours"]:
            nbeh += 1
            nconf += 1 if b["conforms"] else 0
            if b["status"] == "mismatch":
                notes.append("real generator left the model's tape: %s" % b["msg"])
                continue
            lines.append((b["params"], b["result"]))
    return lines, dict(operational_model_states=states, operational_model_transitions=transitions,
                       operational_configs_exhaustive=len(exh), model_behaviours_replayed=nbeh,
                       replays_equal_to_model=nconf, operational_notes=notes[:10])


def check_c15(prop, tier, seed):
    v = Verdict(prop)
    t0 = time.time()
    rng = random.Random(seed)
    plist = []
    for n in GEN_BENCH:
        for s in range(seed, seed + (6 if tier == "quick" else 100)):
            plist.append(("%s-s%d" % (n, s), bench_params(n, s)))
    for i in range(300 if tier == "quick" else 3000):
        plist.append(("rand%d" % i, random_params(rng, i + 7919 * seed)))
    import concurrent.futures as cf
    with cf.ProcessPoolExecutor(max_workers=14, mp_context=mp.get_context("fork")) as ex:   # non-daemonic workers
        results = list(ex.map(_gen_one, [p for _, p in plist], chunksize=4))
    # the same generator object reused for scenarios of different shapes
    rrng = random.Random(seed + 17)
    seqs = []
    for i in range(6 if tier == "quick" else 40):
        seq = []
        for j in range(3):
            p = random_params(rrng, 90000 + 10 * i + j + 7919 * seed)
            if abs(float(p.get("alpha_V", 2.0)) - 1.0) < 1e-12:
                p["alpha_V"] = 2.0
            p["uniform"] = False
            seq.append(p)
        seqs.append(seq)
    with cf.ProcessPoolExecutor(max_workers=6, mp_context=mp.get_context("fork")) as ex:
        for i, (seq, rs) in enumerate(zip(seqs, ex.map(_gen_reuse, seqs))):
            for j, (p, r_) in enumerate(zip(seq, rs)):
                plist.append(("reuse%d-%d" % (i, j), p))
                results.append(r_)
    kfs0 = {k["signature"]: k for k in common.open_findings(prop)}
    op_lines, op_cov = operational_stage(tier, seed, v, kfs0)
    for j, (p_, r_) in enumerate(op_lines):
        plist.append(("tape%d" % j, p_))
        results.append(r_)
    wd = tlc.scratch_dir()
    try:
        tlc.prepare(wd)
        path = os.path.join(wd, "gen.ndjson")
        with open(path, "w") as fh:
            for i, ((name, p), r) in enumerate(zip(plist, results)):
                fh.write(json.dumps(dict(id=i + 1, params=params_record(p), result=r)) + "\n")
        cfg = "SPECIFICATION Spec\nPOSTCONDITION Accepted\nCHECK_DEADLOCK FALSE\n"
        r = tlc.run(wd, "GenWellFormed", cfg, workers=1, env={"GEN_FILE": path}, timeout=3600, heap="6g")
        c = r.consumed()
        if c is None or c[0] != c[1]:
            raise tlc.TLCError("GEN_FILE not fully consumed (%s):\n%s" % (c, r.tail(40)))
        fails = [f for f in r.fails() if f[0] == "C15"]
        kfs = {k["signature"]: k for k in common.open_findings(prop)}
        os.makedirs(common.REPLAY_DIR, exist_ok=True)
        failed = collections.Counter()
        for (_, clause, i) in fails:
            name, p = plist[i - 1]
            res = results[i - 1]
            sig = kf_signature_c15(p, res)
            if sig and sig in kfs:
                v.known.append(kfs[sig]["what"])
                continue
            failed[clause] += 1
            rp = os.path.join(common.REPLAY_DIR, "C15-%s.json" % name)
            with open(rp, "w") as fh:
                json.dump(dict(params=p, result={k: res.get(k) for k in ("ok", "kind", "msg", "exc")}, clause=clause), fh,
                          default=str)
            v.violation("C15: %s for parameters %s (%s)" % (clause, name, res.get("msg", "") if not res["ok"] else "returned"),
                        rp)
        v.known = sorted(set(v.known))
        okn = sum(1 for x in results if x["ok"])
        distinct = len(set(json.dumps(params_record(p), sort_keys=True) for _, p in plist))
        cov = dict(states=r.generated + op_cov["operational_model_states"],
                   transitions=r.generated + op_cov["operational_model_transitions"],
                   traces_validated_against_impl=len(plist),
                   evaluations=len(plist) * 14, distinct_nontrivial=distinct, returned=okn,
                   failed_clauses=dict(failed), known_findings_matched=len(v.known), **op_cov,
                   rule="operational stage: Generator.tla (every draw a nondeterministic choice) is explored exhaustively "
                        "for tiny parameter sets (never stuck, never crashed, finished run well formed and "
                        "root-vulnerable: every seed at once) and its behaviours are replayed into the real "
                        "generator through a scripted numpy.random; declarative stage: "
                        "parameter sets = the nine benchmark sets x seeds + seeded draws from the documented domain "
                        "(all probability specifications, uniform / correlated, random_goal, alpha / lambda around 1, "
                        "restrictiveness 1..S+1, custom address bounds); each is given to the real generator under a "
                        "draw-count bound and a watchdog; TLC evaluates the 14 clauses of GenWellFormed on the export "
                        "of every returned scenario; distinct_nontrivial = distinct parameter sets",
                   samples=[dict(parameters=plist[0][1], returned_subnets=results[0].get("subnets"),
                                 firewall=results[0].get("fw"))])
        common.write_evidence(prop, tier, seed, "model_checking", cov, time.time() - t0, len(v.violations))
        return v.finish()
    finally:
        shutil.rmtree(wd, ignore_errors=True)


def replay_c15(prop, path):
    with open(path) as fh:
        d = json.load(fh)
    p = d["params"]
    if isinstance(p.get("address_space_bounds"), list):
        p["address_space_bounds"] = tuple(p["address_space_bounds"])
    res = _gen_one(p)
    wd = tlc.scratch_dir()
    try:
        tlc.prepare(wd)
        f = os.path.join(wd, "gen.ndjson")
        with open(f, "w") as fh:
            fh.write(json.dumps(dict(id=1, params=params_record(p), result=res)) + "\n")
        r = tlc.run(wd, "GenWellFormed", "SPECIFICATION Spec\nPOSTCONDITION Accepted\nCHECK_DEADLOCK FALSE\n",
                    env={"GEN_FILE": f})
        fails = [x for x in r.fails() if x[0] == "C15"]
        print("generator: %s" % ({k: res.get(k) for k in ("ok", "kind", "msg")},))
        for x in fails:
            print("FAIL C15 %s" % x[1])
        if fails:
            print("VIOLATION property=C15 replay=%s" % path)
            return 1
        print("OK property=C15 (replay)")
        return 0
    finally:
        shutil.rmtree(wd, ignore_errors=True)


# --------------------------------------------------------------------------------------------- C14
def det_jobs(tier, seed):
    jobs = []
    rng = random.Random(seed + 5)
    k = 0
    seeds = range(seed, seed + (2 if tier == "quick" else 8))
    for n in GEN_BENCH[: (7 if tier == "quick" else 9)]:
        for s in seeds:
            jobs.append(dict(kind="gen", key="gen:%s:%d" % (n, s), params=bench_params(n, s), repeat=2))
    # parameter sets in which a firewall rule has to choose among several vulnerable services
    for i in range(10 if tier == "quick" else 80):
        p = dict(num_hosts=rng.choice([5, 8, 12]), num_services=rng.choice([3, 5, 7]), uniform=True,
                 restrictiveness=rng.choice([1, 2]), num_exploits=None, seed=seed * 100 + i, num_os=rng.choice([1, 2]),
                 num_processes=2, num_privescs=2)
        p["num_exploits"] = p["num_services"]
        jobs.append(dict(kind="gen", key="gen:fw%d:%d" % (i, p["seed"]), params=p, repeat=2))
    # dense definition tables: (almost) every (service, OS) / (process, OS) pair gets a definition
    for i, (ns_, no_, np_) in enumerate([(4, 2, 2), (3, 1, 3), (2, 3, 2), (5, 1, 1)][: (4 if tier == "quick" else 4)]):
        for less in (0, 1, 2):
            p = dict(num_hosts=6, num_services=ns_, num_os=no_, num_processes=np_, uniform=False,
                     num_exploits=max(1, ns_ * (no_ + 1) - less), num_privescs=max(1, np_ * (no_ + 1) - less),
                     seed=seed * 10 + i + 7 * less)
            jobs.append(dict(kind="gen", key="gen:dense%d-%d:%d" % (i, less, p["seed"]), params=p, repeat=2))
    # a generated benchmark requested without a seed (numpy's global generator seeded), with and without an
    # earlier request of the same benchmark with an explicit seed: same key, same scenario
    for n in ["tiny-gen", "small-gen"] + ([] if tier == "quick" else ["medium-gen", "small-gen-rgoal"]):
        jobs.append(dict(kind="bench", key="bench:%s:%d" % (n, seed), name=n, seed=seed + 3, repeat=2))
        jobs.append(dict(kind="bench", key="bench:%s:%d" % (n, seed), name=n, seed=seed + 3, prior=seed + 11, repeat=2))
    for i in range(8 if tier == "quick" else 60):
        p = random_params(rng, 50000 + i + 131 * seed)
        p["num_privescs"] = None if p["num_processes"] * (p["num_os"] + 1) < 2 else p["num_privescs"]
        jobs.append(dict(kind="gen", key="gen:rand%d" % i, params=p, repeat=2))
    for n in (["tiny", "small", "medium-multi-site"] if tier == "quick" else corpus.YAML_BENCHMARKS):
        for fo in (False, True):
            jobs.append(dict(kind="traj", key="traj:%s:%s:%d" % (n, fo, seed), scenario=("bench_yaml", n), seed=seed,
                             steps=300 if tier == "quick" else 1500, fo=fo, repeat=2))
            # the same key again on ONE environment object that is re-seeded and reset between repetitions
            jobs.append(dict(kind="traj", key="traj:%s:%s:%d" % (n, fo, seed), scenario=("bench_yaml", n), seed=seed,
                             steps=300 if tier == "quick" else 1500, fo=fo, repeat=3, reuse=True))
            # ... and on an environment that was once seeded the Gymnasium way (reset(seed=..)): the global seed
            # still decides
            jobs.append(dict(kind="traj", key="traj:%s:%s:%d" % (n, fo, seed), scenario=("bench_yaml", n), seed=seed,
                             steps=300 if tier == "quick" else 1500, fo=fo, repeat=2, reuse=True, gymseed=77))
            # seeded generative steps repeated on one environment without a reset in between
            jobs.append(dict(kind="traj", key="genseq:%s:%s:%d" % (n, fo, seed), scenario=("bench_yaml", n), seed=seed,
                             steps=40, fo=fo, repeat=3, reuse=True, genseq=True))
    for n in ["small-gen", "medium-gen"]:
        jobs.append(dict(kind="traj", key="traj:%s:%d" % (n, seed), scenario=("gen", bench_params(n, seed)),
                         seed=seed + 1, steps=300, repeat=2))
    return jobs


def _run_worker(args):
    hashseed, jobs = args
    env = dict(os.environ)
    env["PYTHONHASHSEED"] = hashseed
    env["VERIF_REPO"] = corpus.REPO
    p = subprocess.run(["/venv/bin/python", os.path.join(common.ROOT, "harness", "detwork.py")],
                       input=json.dumps(jobs), stdout=subprocess.PIPE, stderr=subprocess.PIPE, text=True, env=env,
                       timeout=3000)
    if p.returncode != 0:
        raise tlc.TLCError("determinism worker failed: " + p.stderr[-1500:])
    return [dict(x, where="PYTHONHASHSEED=" + hashseed) for x in json.loads(p.stdout)]


def check_c14(prop, tier, seed):
    v = Verdict(prop)
    t0 = time.time()
    jobs = det_jobs(tier, seed)
    hashseeds = ["0", "1", "2", "random"] if tier == "quick" else ["0", "1", "2", "3", "17", "random", "random"]
    # split the jobs so that the pool is used: each chunk is run under every hash seed
    chunks = [jobs[i::4] for i in range(4)]
    work = [(h, c) for h in hashseeds for c in chunks if c]
    with mp.get_context("fork").Pool(min(16, len(work))) as pool:
        outs = pool.map(_run_worker, work, chunksize=1)
    lines = []
    for o in outs:
        for x in o:
            lines.append(dict(id=len(lines) + 1, key=x["key"], fp=x["fp"], where=x["where"], rep=x["rep"]))
    wd = tlc.scratch_dir()
    try:
        tlc.prepare(wd)
        path = os.path.join(wd, "det.ndjson")
        with open(path, "w") as fh:
            for ln in lines:
                fh.write(json.dumps(ln) + "\n")
        r = tlc.run(wd, "Determinism", "SPECIFICATION Spec\nPOSTCONDITION Accepted\nCHECK_DEADLOCK FALSE\n", workers=1,
                    env={"DET_FILE": path}, timeout=1800)
        c = r.consumed()
        if c is None or c[0] != c[1]:
            raise tlc.TLCError("DET_FILE not fully consumed (%s):\n%s" % (c, r.tail(40)))
        import re
        fails = re.findall(r'<<\s*"FAIL",\s*"C14",\s*"([a-z_]+)",\s*(\d+),\s*(\d+)\s*>>', r.out)
        bykey = {j["key"]: j for j in jobs}
        os.makedirs(common.REPLAY_DIR, exist_ok=True)
        seen = set()
        for clause, i, j in fails:
            a, b = lines[int(i) - 1], lines[int(j) - 1]
            if a["key"] in seen:
                continue
            seen.add(a["key"])
            rp = os.path.join(common.REPLAY_DIR, "C14-%s.json" % a["key"].replace(":", "_"))
            with open(rp, "w") as fh:
                json.dump(dict(job=bykey[a["key"]], runs=[a, b]), fh, default=str)
            v.violation("C14: %s gave fingerprint %s (%s, run %d) but %s (%s, run %d)" % (
                a["key"], b["fp"], b["where"], b["rep"], a["fp"], a["where"], a["rep"]), rp)
        raised = sorted(set(ln["key"] for ln in lines if ln["fp"].startswith("raised:")))
        cov = dict(states=r.generated, transitions=r.generated, traces_validated_against_impl=len(lines),
                   evaluations=len(lines), distinct_nontrivial=len(jobs), keys=len(jobs), runs=len(lines),
                   hash_seeds=hashseeds, computations_that_raised=raised[:20],
                   rule="every keyed computation (generation for given parameters and seed; seeded trajectory of a "
                        "scenario under a fixed action script) is run twice in one process and once more in separate "
                        "processes for each PYTHONHASHSEED; TLC's memo machine (Determinism.tla) refuses a run whose "
                        "fingerprint differs from the recorded one; distinct_nontrivial = distinct keys; the dynamics "
                        "half is also covered by the entropy tripwire clause C14/no_other_entropy of the trace monitor",
                   samples=lines[:3])
        common.write_evidence(prop, tier, seed, "model_checking", cov, time.time() - t0, len(v.violations))
        return v.finish()
    finally:
        shutil.rmtree(wd, ignore_errors=True)


def replay_c14(prop, path):
    with open(path) as fh:
        d = json.load(fh)
    job = d["job"]
    if isinstance(job.get("params", {}).get("address_space_bounds"), list):
        job["params"]["address_space_bounds"] = tuple(job["params"]["address_space_bounds"])
    fps = set()
    for h in ["0", "1", "2", "3"]:
        for x in _run_worker((h, [job])):
            print(x["where"], x["fp"])
            fps.add(x["fp"])
    if len(fps) > 1:
        print("VIOLATION property=C14 replay=%s" % path)
        return 1
    print("OK property=C14 (replay)")
    return 0
