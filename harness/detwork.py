"""Worker of the C14 check: run keyed computations in THIS process (whose PYTHONHASHSEED the parent chose) and
print one canonical fingerprint per run as JSON.  stdin: JSON list of jobs."""
import hashlib
import json
import os
import random
import sys

ROOT = os.path.dirname(os.path.dirname(os.path.abspath(__file__)))
sys.path[:0] = [ROOT, os.environ.get("VERIF_REPO", "/repo")]

import numpy as np   # noqa: E402


def canon_scenario(scn):
    d = scn.scenario_dict

    def host(h):
        return dict(os=sorted(k for k, v in h.os.items() if v), srvs=sorted(k for k, v in h.services.items() if v),
                    procs=sorted(k for k, v in h.processes.items() if v), value=repr(float(h.value)),
                    dvalue=repr(float(h.discovery_value)),
                    fw=sorted((str(k), sorted(map(str, v))) for k, v in h.firewall.items()))
    return dict(subnets=[int(x) for x in d["subnets"]],
                topology=[[int(c) for c in row] for row in d["topology"]],
                os=list(d["os"]), services=list(d["services"]), processes=list(d["processes"]),
                sens=[(str(k), repr(float(v))) for k, v in d["sensitive_hosts"].items()],
                exploits=[(str(n), str(e["service"]), str(e["os"]), repr(float(e["prob"])), repr(float(e["cost"])),
                           int(e["access"])) for n, e in d["exploits"].items()],
                privescs=[(str(n), str(e["process"]), str(e["os"]), repr(float(e["prob"])), repr(float(e["cost"])),
                           int(e["access"])) for n, e in d["privilege_escalation"].items()],
                hosts=[(str(k), host(h)) for k, h in d["host"].items()],
                fw=[(str(k), sorted(map(str, v))) for k, v in d["firewall"].items()],
                step_limit=d.get("step_limit"), bounds=str(d.get("address_space_bounds")))


def fp(obj):
    return hashlib.sha256(json.dumps(obj, sort_keys=True, default=str).encode()).hexdigest()[:20]


def run_gen(job):
    from harness import gen
    scn, n = gen.generate(job["params"], bound=200000)
    return fp(canon_scenario(scn))


def run_bench(job):
    """a generated benchmark requested WITHOUT a seed after seeding numpy's global generator; with `prior` the same
    benchmark was first requested with an explicit seed (and thrown away) - that must not matter"""
    import nasim.scenarios as S
    if job.get("prior") is not None:
        S.make_benchmark_scenario(job["name"], seed=job["prior"])
    np.random.seed(job["seed"])
    return fp(canon_scenario(S.make_benchmark_scenario(job["name"])))


def run_traj(job):
    if job.get("_env") is not None:
        return _traj(job, job["_env"])
    return _traj(job, None)


def _traj(job, env0):
    import nasim
    from nasim.envs import NASimEnv
    from harness import gen
    if job["scenario"][0] == "bench_yaml":
        scn = nasim.load_scenario(os.path.join(os.environ.get("VERIF_REPO", "/repo"), "nasim", "scenarios", "benchmark",
                                               job["scenario"][1] + ".yaml"))
    else:
        scn, _ = gen.generate(job["scenario"][1], bound=200000)
    env = env0 or NASimEnv(scn, fully_obs=job.get("fo", False), flat_actions=True, flat_obs=True)
    if job.get("reuse"):
        job["_env"] = env          # the same environment object serves every repetition of this key
    if job.get("gymseed") and env0 is None:
        env.reset(seed=job["gymseed"])      # the Gymnasium way of seeding, once in the environment's life
    if job.get("genseq"):
        # seeded generative steps from the initial state, no reset in between repetitions
        np.random.seed(job["seed"])
        rng = random.Random(job["seed"])
        h = hashlib.sha256()
        st = env.current_state
        n = env.action_space.n
        for _ in range(job["steps"]):
            ns, obs, r, d, info = env.generative_step(st, rng.randrange(n))
            h.update(ns.tensor.tobytes())
            h.update(repr((float(r), bool(d), bool(info["success"]), bool(info["undefined_error"]))).encode())
        return h.hexdigest()[:20]
    np.random.seed(job["seed"])
    rng = random.Random(job["seed"])
    h = hashlib.sha256()
    obs, _ = env.reset()
    h.update(np.ascontiguousarray(obs).tobytes())
    n = env.action_space.n
    for _ in range(job["steps"]):
        obs, r, d, t, info = env.step(rng.randrange(n))
        h.update(np.ascontiguousarray(obs).tobytes())
        h.update(repr((float(r), bool(d), bool(t), bool(info["success"]), float(info["value"]),
                       bool(info["connection_error"]), bool(info["permission_error"]),
                       bool(info["undefined_error"]))).encode())
        if d or t:
            obs, _ = env.reset()
            h.update(np.ascontiguousarray(obs).tobytes())
    h.update(env.current_state.tensor.tobytes())
    return h.hexdigest()[:20]


def main():
    jobs = json.load(sys.stdin)
    out = []
    for j in jobs:
        for rep in range(j.get("repeat", 1)):
            try:
                f = run_gen(j) if j["kind"] == "gen" else run_bench(j) if j["kind"] == "bench" else run_traj(j)
            except Exception as ex:          # noqa
                f = "raised:%s" % type(ex).__name__
            out.append(dict(key=j["key"], fp=f, rep=rep))
    json.dump(out, sys.stdout)


if __name__ == "__main__":
    main()
