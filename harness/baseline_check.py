#!/venv/bin/python
"""Run the pinned test-suite of /repo and check that every stable-pass test of BASELINE.json still passes."""
import json, subprocess, sys, tempfile, os
import xml.etree.ElementTree as ET
repo = sys.argv[1] if len(sys.argv) > 1 else "/repo"
base = json.load(open("/root/.vp/BASELINE.json"))
want = set(base["stable_pass"])
fd, path = tempfile.mkstemp(suffix=".xml"); os.close(fd)
subprocess.run(["/venv/bin/python", "-m", "pytest", "-ra", "-q", "-p", "no:cacheprovider", "--timeout=900",
                "--continue-on-collection-errors", "--junitxml=" + path], cwd=repo,
               stdout=subprocess.DEVNULL, stderr=subprocess.DEVNULL)
passed = set()
for tc in ET.parse(path).getroot().iter("testcase"):
    if not any(c.tag in ("failure", "error", "skipped") for c in tc):
        passed.add(tc.get("classname") + "::" + tc.get("name"))
os.unlink(path)
missing = sorted(want - passed)
print("baseline stable_pass: %d, passing now: %d, newly passing: %d, regressions: %d" % (
    len(want), len(passed), len(passed - want), len(missing)))
for m in missing[:20]:
    print("REGRESSION", m)
sys.exit(1 if missing else 0)
