"""Scenario corpus: small hand-written scenarios designed so that every gate of the transition
function is the only failing one in some reachable state (DESIGN section 4), available as
dict-scenarios (built through the public Scenario / Host constructors) and, where the file format
can express them, as YAML documents for nasim.load."""
import copy
import os

import yaml

from harness.export import NONE, milli, ppm

U, R = 1, 2


def topo(n, edges):
    """n subnets incl. internet (0); symmetric, self-connected"""
    t = [[1 if i == j else 0 for j in range(n)] for i in range(n)]
    for a, b in edges:
        t[a][b] = 1
        t[b][a] = 1
    return t


def H(os, srv, proc=(), value=0, dvalue=0, deny=None):
    return dict(os=os, srv=list(srv), proc=list(proc), value=value, dvalue=dvalue, deny=deny or {})


def E(srv, os, prob, cost, access):
    return dict(service=srv, os=os, prob=prob, cost=cost, access=access)


def P(proc, os, prob, cost, access):
    return dict(process=proc, os=os, prob=prob, cost=cost, access=access)


def X(kind, target, cost=1, prob=1.0, req=R, srv=None, proc=None, os=None, access=0, name=None):
    """a custom Action object description (cs 'extra_actions' entry)"""
    return dict(kind=kind, name=name or ("x_" + kind), target=list(target), cost=milli(cost), prob=ppm(prob),
                req=req, srv=srv or NONE, proc=proc or NONE, os=os or NONE, access=access)


SPECS = {}


def spec(name, **kw):
    kw.setdefault("scan_costs", (1, 1, 1, 1))
    kw.setdefault("step_limit", None)
    kw.setdefault("bounds", None)
    kw.setdefault("extra", [])
    kw.setdefault("big", False)
    kw["name"] = name
    SPECS[name] = kw
    return kw


# --- asymmetric subnet firewalls, an internet rule that blocks one service, empty allow-lists
spec("fw_asym",
     subnets=[1, 1, 1], topology=topo(4, [(0, 1), (1, 2), (1, 3), (2, 3)]),
     os=["linux", "windows"], services=["ssh", "http", "ftp"], processes=["tomcat"],
     hosts={(1, 0): H("linux", ["ssh", "http"], ["tomcat"]),
            (2, 0): H("linux", ["ssh"], ["tomcat"]),
            (3, 0): H("windows", ["ftp", "ssh"], [])},
     # probabilities with three decimals (0.796 is not 0.8, 0.004 is not 0)
     exploits={"e_http": E("http", None, 0.9, 2, U), "e_ssh": E("ssh", "linux", 0.796, 1.5, U),
               "e_ftp": E("ftp", "windows", 0.004, 1, R)},
     privescs={"pe_tomcat": P("tomcat", "linux", 1.0, 1, R)},
     fw={(0, 1): ["http"], (1, 0): [], (1, 2): ["ssh"], (2, 1): [], (1, 3): [], (3, 1): ["ftp"],
         (2, 3): ["ftp"], (3, 2): ["ssh"]},
     sens={(2, 0): 100, (3, 0): 50})

# --- per-host deny-lists that block one pivot but not another; hosts listed out of address order
spec("deny",
     subnets=[2, 1], topology=topo(3, [(0, 1), (1, 2)]),
     os=["linux"], services=["ssh", "ftp"], processes=["tomcat"],
     hosts={(1, 1): H("linux", ["ftp"], []),          # hosts deliberately not listed in address order
            (2, 0): H("linux", ["ssh", "ftp"], ["tomcat"],
                      # ... and refuses ftp from ITSELF: once it is held through ssh, ftp still cannot be delivered
                      deny={(1, 0): ["ssh", "ftp"], (1, 1): ["ftp"], (2, 0): ["ftp"]}),
            (1, 0): H("linux", ["ssh"], ["tomcat"])},
     exploits={"e_ssh": E("ssh", "linux", 0.7, 1, U), "e_ftp": E("ftp", None, 1.0, 1, U)},
     privescs={"pe_tomcat": P("tomcat", None, 0.5, 2, R)},
     fw={(0, 1): ["ssh", "ftp"], (1, 0): [], (1, 2): ["ssh", "ftp"], (2, 1): ["ssh"]},
     sens={(2, 0): 10})

# --- three public subnets with different internet rules (one of them empty: that subnet can only be
#     entered from inside), sensitive hosts in public subnets, a negative host value
spec("two_public",
     subnets=[1, 1, 1], topology=topo(4, [(0, 1), (0, 2), (0, 3), (1, 2), (2, 3)]),
     os=["linux"], services=["ssh", "http"], processes=["cron"],
     hosts={(1, 0): H("linux", ["http", "ssh"], ["cron"], value=-5),
            (2, 0): H("linux", ["ssh", "http"], ["cron"]),
            (3, 0): H("linux", ["ssh", "http"], [])},
     exploits={"e_http": E("http", "linux", 1.0, 1, U), "e_ssh": E("ssh", None, 0.6, 3, R)},
     privescs={"pe_cron": P("cron", "linux", 1.0, 1, R)},
     fw={(0, 1): ["http"], (1, 0): [], (0, 2): ["ssh"], (2, 0): [], (0, 3): [], (3, 0): ["ssh", "http"],
         (1, 2): ["ssh"], (2, 1): ["http"], (2, 3): ["http"], (3, 2): []},
     sens={(2, 0): 20, (3, 0): 30})

# --- the two firewall layers must be satisfied by the SAME pivot: one pivot passes the subnet rule but is
#     denied by the target, the other is not denied but its subnet rule blocks; a connected pair of subnets
#     whose rules are empty in both directions (scans still discover across it)
spec("two_layer",
     subnets=[1, 1, 1, 1], topology=topo(5, [(0, 1), (1, 2), (1, 3), (2, 3), (1, 4)]),
     os=["linux"], services=["http", "ftp", "ssh"], processes=["cron"],
     hosts={(1, 0): H("linux", ["http"], ["cron"]),
            (2, 0): H("linux", ["ftp"], ["cron"]),
            (3, 0): H("linux", ["ssh"], [], deny={(1, 0): ["ssh"]}),
            (4, 0): H("linux", ["http"], [])},
     exploits={"e_http": E("http", None, 1.0, 1, U), "e_ftp": E("ftp", "linux", 0.9, 1, U),
               "e_ssh": E("ssh", None, 0.7, 1, R)},
     privescs={"pe_cron": P("cron", "linux", 1.0, 1, R)},
     fw={(0, 1): ["http"], (1, 0): [], (1, 2): ["ftp"], (2, 1): ["ftp"], (1, 3): ["ssh"], (3, 1): [],
         (2, 3): [], (3, 2): ["ssh"], (1, 4): [], (4, 1): []},
     sens={(2, 0): 8})

# --- the same name used in two namespaces (a service and a process called "mysql", an OS and a service
#     called "web"); hosts run only one of the two
spec("name_clash",
     subnets=[2], topology=topo(2, [(0, 1)]),
     os=["linux", "web"], services=["mysql", "web"], processes=["mysql", "cron"],
     hosts={(1, 0): H("linux", ["web"], ["mysql"]),
            (1, 1): H("web", ["mysql"], ["cron"])},
     exploits={"e_mysql": E("mysql", None, 1.0, 1, U), "e_web": E("web", "web", 0.5, 1, R),
               "e_web_lin": E("web", "linux", 1.0, 2, U),
               "e_mysql_again": E("mysql", None, 1.0, 1, U)},       # same definition under another name
     privescs={"pe_mysql": P("mysql", None, 1.0, 1, R), "pe_cron": P("cron", "linux", 1.0, 1, R),
               "pe_cron_again": P("cron", "linux", 1.0, 1, R)},
     fw={(0, 1): ["mysql", "web"], (1, 0): []},
     sens={(1, 0): 2, (1, 1): 3})

# --- OS-specific / agnostic exploits, absent process, root-granting exploit, user-granting
#     escalation, two definitions sharing (service, OS), odd values and costs, discovery values,
#     step limit 3, larger address bounds, custom actions that require ROOT
spec("os_mix",
     subnets=[2, 1], topology=topo(3, [(0, 1), (1, 2)]),
     os=["linux", "windows"], services=["ssh", "smb"], processes=["tomcat", "daclsvc"],
     hosts={(1, 0): H("linux", ["ssh"], ["tomcat"], value=0.5, dvalue=0),
            (1, 1): H("windows", ["smb"], [], value=-2, dvalue=0),
            (2, 0): H("windows", ["ssh", "smb"], ["daclsvc"], dvalue=1.5)},
     exploits={"e_ssh_lin": E("ssh", "linux", 0.9, 1, U), "e_smb_win": E("smb", "windows", 0.8, 2.5, R),
               "e_ssh_any": E("ssh", None, 0.5, 0.25, U), "e_ssh_lin2": E("ssh", "linux", 0.4, 3, R)},
     privescs={"pe_tomcat": P("tomcat", "linux", 1.0, 1, R), "pe_dacl_user": P("daclsvc", "windows", 0.75, 1, U),
               "pe_dacl": P("daclsvc", None, 0.6, 2, R)},
     fw={(0, 1): ["ssh", "smb"], (1, 0): [], (1, 2): ["ssh"], (2, 1): ["smb"]},
     sens={(2, 0): 12.5}, step_limit=3, bounds=(5, 3), scan_costs=(0.1, 0.7, 2, 0),
     extra=[X("subnet_scan", (1, 0), cost=1), X("process_scan", (1, 0), cost=1),
            X("service_scan", (2, 0), cost=1), X("os_scan", (2, 0), cost=1),
            X("exploit", (2, 0), cost=1, prob=1.0, srv="ssh", access=R, name="x_e_ssh_root"),
            X("privesc", (1, 0), cost=1, prob=1.0, proc="tomcat", os="linux", access=R, name="x_pe_root")])

# --- chain of four subnets, three sensitive hosts, discovery values, no step limit
spec("chain",
     subnets=[1, 1, 1, 1], topology=topo(5, [(0, 1), (1, 2), (2, 3), (3, 4)]),
     os=["linux"], services=["ssh"], processes=["tomcat"],
     hosts={(1, 0): H("linux", ["ssh"], ["tomcat"], dvalue=0),
            (2, 0): H("linux", ["ssh"], ["tomcat"], dvalue=2),
            (3, 0): H("linux", ["ssh"], [], value=15, dvalue=12),   # not sensitive, worth more than every sensitive host
            (4, 0): H("linux", ["ssh"], ["tomcat"], dvalue=4)},
     exploits={"e_ssh": E("ssh", "linux", 0.8, 1, U)},
     privescs={"pe_tomcat": P("tomcat", "linux", 1.0, 1, R)},
     fw={(0, 1): ["ssh"], (1, 0): [], (1, 2): ["ssh"], (2, 1): ["ssh"], (2, 3): ["ssh"], (3, 2): [],
         (3, 4): ["ssh"], (4, 3): ["ssh"]},
     sens={(1, 0): 5, (2, 0): 7, (4, 0): 9})

# --- chain internet-1-2-3 whose hosts are listed in an order unrelated to their addresses; the first listed
#     host is the uniquely most valuable one; subnet 3 must stay unreachable until subnet 2 is entered
spec("unordered_chain",
     subnets=[1, 2, 1], topology=topo(4, [(0, 1), (1, 2), (2, 3)]),
     os=["linux"], services=["ssh", "ftp"], processes=["tomcat"],
     hosts={(3, 0): H("linux", ["ssh"], ["tomcat"], dvalue=2),
            (2, 1): H("linux", ["ftp"], [], value=0.5, dvalue=1),
            (1, 0): H("linux", ["ssh", "ftp"], ["tomcat"]),
            (2, 0): H("linux", ["ssh"], ["tomcat"], value=-1, dvalue=3)},
     exploits={"e_ssh": E("ssh", "linux", 0.8, 1, U), "e_ftp": E("ftp", None, 1.0, 2, R)},
     privescs={"pe_tomcat": P("tomcat", "linux", 1.0, 1, R)},
     # (1, 3) / (3, 1): leftover rules between subnets that are NOT connected - the loader accepts them, they
     # must not connect anything
     fw={(0, 1): ["ssh"], (1, 0): [], (1, 2): ["ssh", "ftp"], (2, 1): [], (2, 3): ["ssh"], (3, 2): ["ssh"],
         (1, 3): ["ssh", "ftp"], (3, 1): ["ssh"]},
     sens={(3, 0): 50, (1, 0): 5})

# --- two hosts with the very same configuration block (rendered to YAML as an anchor and an alias), the first
#     of them sensitive, the second not
spec("twins",
     subnets=[2, 1], topology=topo(3, [(0, 1), (1, 2)]),
     # more processes than services; the processes a scan must reveal sit in the last columns
     os=["linux"], services=["ssh"], processes=["tomcat", "cron", "daemon"],
     hosts={(1, 0): H("linux", ["ssh"], ["tomcat", "daemon"]), (1, 1): H("linux", ["ssh"], ["tomcat", "daemon"]),
            (2, 0): H("linux", ["ssh"], ["tomcat", "cron"])},
     # e_never: probability exactly 0 (accepted by the format): never succeeds, whatever the action space
     exploits={"e_ssh": E("ssh", "linux", 0.9, 1, U), "e_never": E("ssh", None, 0.0, 1, R)},
     # pe_daemon: a second escalation for the SAME OS through another process (the last process column)
     privescs={"pe_tomcat": P("tomcat", "linux", 1.0, 1, R), "pe_never": P("tomcat", None, 0, 1, R),
               "pe_daemon": P("daemon", "linux", 1.0, 2, R)},
     fw={(0, 1): ["ssh"], (1, 0): [], (1, 2): ["ssh"], (2, 1): ["ssh"]},
     sens={(1, 0): 7, (2, 0): 3})

# --- one sensitive host that can only hold USER access (goal unreachable: all vs any, USER vs ROOT)
spec("user_only",
     subnets=[2], topology=topo(2, [(0, 1)]),
     os=["linux"], services=["ssh"], processes=["p"],
     hosts={(1, 0): H("linux", ["ssh"], ["p"]), (1, 1): H("linux", ["ssh"], [])},
     exploits={"e_ssh": E("ssh", None, 1.0, 1, U)},
     privescs={"pe_p": P("p", "linux", 1.0, 1, R)},
     fw={(0, 1): ["ssh"], (1, 0): []},
     sens={(1, 0): 3, (1, 1): 4}, step_limit=4)


# --- a ring of six subnets behind one gateway (subnet 4: the first host row is NOT public and stays undiscovered
#     for a while): every subnet can be approached from two sides, and compromising the far side makes subnets
#     CLOSER to the internet reachable
spec("ring",
     subnets=[1, 1, 1, 1, 1, 1], topology=topo(7, [(0, 4), (1, 2), (2, 3), (3, 4), (4, 5), (5, 6), (6, 1)]),
     # "bsd": an OS no host runs; step limit of exactly 1 (every step after the first reports the limit)
     os=["linux", "bsd"], services=["ssh"], processes=["p"],
     hosts=dict(((s, 0), H("linux", ["ssh"], [])) for s in range(1, 7)),
     exploits={"e_ssh": E("ssh", None, 1.0, 1, R)},
     privescs={"pe_p": P("p", None, 1.0, 1, R)},
     fw=dict([((0, 4), ["ssh"]), ((4, 0), [])]
             + [((a, b), ["ssh"]) for a, b in [(1, 2), (2, 3), (3, 4), (4, 5), (5, 6), (6, 1)]]
             + [((b, a), ["ssh"]) for a, b in [(1, 2), (2, 3), (3, 4), (4, 5), (5, 6), (6, 1)]]),
     # 2.1 + 0.1: the float32 sum (2.1999998) is below the sum of the numbers
     sens={(1, 0): 2.1, (2, 0): 0.1}, step_limit=1)

# --- 68 hosts (tensor rows beyond 64, more than 1000 cells), two gateways at opposite ends of the row order;
#     recorded goal-seeking sweeps only
spec("big68",
     subnets=[33, 33, 2], topology=topo(4, [(0, 1), (0, 3), (1, 2), (2, 3)]),
     os=["linux"], services=["ssh"], processes=["tomcat"],
     hosts=dict([((1, i), H("linux", ["ssh"], ["tomcat"] if i % 4 == 0 else [])) for i in range(33)]
                # the hosts of the middle subnet refuse one or the other of the two hosts of subnet 3 (rows 66, 67)
                + [((2, i), H("linux", ["ssh"], ["tomcat"] if i % 4 == 1 else [],
                              deny=({(3, 0): ["ssh"]} if i % 3 == 0 else {(3, 1): ["ssh"]} if i % 3 == 1 else {})))
                   for i in range(33)]
                + [((3, i), H("linux", ["ssh"], ["tomcat"])) for i in range(2)]),
     exploits={"e_ssh": E("ssh", "linux", 0.9, 1, U)},
     privescs={"pe_tomcat": P("tomcat", None, 1.0, 1, R)},
     fw={(0, 1): ["ssh"], (1, 0): [], (0, 3): ["ssh"], (3, 0): [], (1, 2): ["ssh"], (2, 1): ["ssh"],
         (2, 3): ["ssh"], (3, 2): ["ssh"]},
     sens={(2, 17): 10, (3, 1): 5, (1, 32): 3}, big=True)

# --- a wide subnet (two-digit host ids) with deny-lists naming two-digit sources; too large for exhaustive
#     exploration, used for recorded runs and as a format document
spec("wide",
     subnets=[12, 1], topology=topo(3, [(0, 1), (1, 2)]),
     os=["linux"], services=["ssh", "ftp"], processes=["tomcat"],
     hosts=dict([((1, i), H("linux", ["ssh"] if i % 2 else ["ftp"], ["tomcat"] if i % 3 == 0 else []))
                 for i in range(12)]
                + [((2, 0), H("linux", ["ssh", "ftp"], ["tomcat"],
                              deny={(1, 10): ["ftp"], (1, 11): ["ssh"], (1, 1): ["ssh"]}))]),
     exploits={"e_ssh": E("ssh", "linux", 0.9, 1, U), "e_ftp": E("ftp", None, 1.0, 1, U)},
     privescs={"pe_tomcat": P("tomcat", None, 1.0, 1, R)},
     fw={(0, 1): ["ssh", "ftp"], (1, 0): [], (1, 2): ["ssh", "ftp"], (2, 1): []},
     sens={(2, 0): 10}, big=True)


def names():
    return [n for n, sp in SPECS.items() if not sp.get("big")]


def cs_of(sp):
    """canonical scenario of a corpus spec (the definition itself)"""
    subnets = [1] + list(sp["subnets"])
    hosts = list(sp["hosts"].keys())
    b = sp["bounds"] or (len(subnets), max(subnets))
    cs = dict(name=sp["name"], subnets=subnets, topology=copy.deepcopy(sp["topology"]),
              hosts=[list(h) for h in hosts], os=list(sp["os"]), services=list(sp["services"]),
              processes=list(sp["processes"]), host_os={}, host_srv={}, host_proc={}, val={}, dval={},
              sens={h: milli(v) for h, v in sp["sens"].items()}, fw={k: list(v) for k, v in sp["fw"].items()},
              hdeny={}, exploits=[], privescs=[],
              scan_cost=dict(zip(["service_scan", "os_scan", "subnet_scan", "process_scan"],
                                 [milli(c) for c in sp["scan_costs"]])),
              step_limit=sp["step_limit"], bounds=[b[0], b[1]], extra_actions=copy.deepcopy(sp["extra"]))
    for h, d in sp["hosts"].items():
        cs["host_os"][h] = [d["os"]]
        cs["host_srv"][h] = [s for s in sp["services"] if s in d["srv"]]
        cs["host_proc"][h] = [p for p in sp["processes"] if p in d["proc"]]
        cs["val"][h] = milli(sp["sens"][h]) if h in sp["sens"] else milli(d["value"])
        cs["dval"][h] = milli(d["dvalue"])
        cs["hdeny"][h] = {k: list(v) for k, v in d["deny"].items()}
    for n, e in sp["exploits"].items():
        cs["exploits"].append(dict(name=n, srv=e["service"], os=e["os"] or NONE, prob=ppm(e["prob"]),
                                   cost=milli(e["cost"]), access=e["access"]))
    for n, e in sp["privescs"].items():
        cs["privescs"].append(dict(name=n, proc=e["process"], os=e["os"] or NONE, prob=ppm(e["prob"]),
                                   cost=milli(e["cost"]), access=e["access"]))
    return cs


def build_dict_scenario(sp):
    """a real Scenario object through the public constructors"""
    from nasim.scenarios import Scenario
    from nasim.scenarios.host import Host
    hosts = {}
    for h, d in sp["hosts"].items():
        value = sp["sens"][h] if h in sp["sens"] else d["value"]
        hosts[h] = Host(address=h,
                        os={o: o == d["os"] for o in sp["os"]},
                        services={s: s in d["srv"] for s in sp["services"]},
                        processes={p: p in d["proc"] for p in sp["processes"]},
                        firewall={k: list(v) for k, v in d["deny"].items()},
                        value=float(value), discovery_value=float(d["dvalue"]),
                        # every second host of a hand-built scenario is CONSTRUCTED as if the attacker already held it
                        # (optional constructor arguments); the environment starts and resets with no access anywhere
                        **(dict(compromised=True, access=2, discovered=True, reachable=True)
                           if (h[0] + h[1]) % 2 == 0 and not sp.get("big") else {}))
    sd = {"subnets": [1] + list(sp["subnets"]), "topology": copy.deepcopy(sp["topology"]),
          "os": list(sp["os"]), "services": list(sp["services"]), "processes": list(sp["processes"]),
          "sensitive_hosts": dict(sp["sens"]),
          "exploits": {n: dict(e) for n, e in sp["exploits"].items()},
          "privilege_escalation": {n: dict(e) for n, e in sp["privescs"].items()},
          "service_scan_cost": sp["scan_costs"][0], "os_scan_cost": sp["scan_costs"][1],
          "subnet_scan_cost": sp["scan_costs"][2], "process_scan_cost": sp["scan_costs"][3],
          "firewall": {k: list(v) for k, v in sp["fw"].items()}, "host": hosts,
          "step_limit": sp["step_limit"]}
    if sp["bounds"]:
        sd["address_space_bounds"] = tuple(sp["bounds"])
    return Scenario(sd, name=sp["name"], generated=False)


def yaml_expressible(sp):
    return sp["bounds"] is None and all(d["dvalue"] == 0 for d in sp["hosts"].values()) \
        and all(c >= 0 for c in sp["scan_costs"])


def yaml_doc(sp):
    """the same scenario as a document in the documented YAML format"""
    acc = {U: "user", R: "root"}
    doc = {"subnets": list(sp["subnets"]), "topology": copy.deepcopy(sp["topology"]),
           "sensitive_hosts": {str(tuple(h)): v for h, v in sp["sens"].items()},
           "os": list(sp["os"]), "services": list(sp["services"]), "processes": list(sp["processes"]),
           "exploits": {n: dict(service=e["service"], os=e["os"] or "none", prob=e["prob"], cost=e["cost"],
                                access=acc[e["access"]]) for n, e in sp["exploits"].items()},
           "privilege_escalation": {n: dict(process=e["process"], os=e["os"] or "none", prob=e["prob"],
                                            cost=e["cost"], access=acc[e["access"]])
                                    for n, e in sp["privescs"].items()},
           "service_scan_cost": sp["scan_costs"][0], "os_scan_cost": sp["scan_costs"][1],
           "subnet_scan_cost": sp["scan_costs"][2], "process_scan_cost": sp["scan_costs"][3],
           "host_configurations": {}, "firewall": {str(tuple(k)): list(v) for k, v in sp["fw"].items()}}
    for h, d in sp["hosts"].items():
        c = dict(os=d["os"], services=list(d["srv"]), processes=list(d["proc"]))
        if d["deny"]:
            c["firewall"] = {str(tuple(k)): list(v) for k, v in d["deny"].items()}
        if h not in sp["sens"] and d["value"] != 0:
            c["value"] = d["value"]
        doc["host_configurations"][str(tuple(h))] = c
    if sp["step_limit"] is not None:
        doc["step_limit"] = sp["step_limit"]
    return doc


def write_yaml(sp, path):
    import json as _json
    doc = yaml_doc(sp)
    seen = {}
    hc = doc["host_configurations"]
    for k in list(hc.keys()):          # identical blocks become one object: PyYAML writes an anchor and aliases
        key = _json.dumps(hc[k], sort_keys=True, default=str)
        if key in seen:
            hc[k] = seen[key]
        else:
            seen[key] = hc[k]
    with open(path, "w") as fh:
        yaml.safe_dump(doc, fh, sort_keys=False, default_flow_style=None)
    return path


def yaml_variant(sp):
    """the YAML-expressible projection of a spec (discovery values and custom bounds dropped)"""
    sp2 = copy.deepcopy(sp)
    sp2["name"] = sp["name"] + "_yaml"
    sp2["bounds"] = None
    for d in sp2["hosts"].values():
        d["dvalue"] = 0
    sp2["scan_costs"] = tuple(max(0, c) for c in sp2["scan_costs"])
    return sp2


REPO = os.environ.get("VERIF_REPO", "/repo")
BENCH_DIR = os.path.join(REPO, "nasim", "scenarios", "benchmark")


def bench_yaml(name):
    return os.path.join(BENCH_DIR, name + ".yaml")


YAML_BENCHMARKS = ["tiny", "tiny-hard", "tiny-small", "small", "small-honeypot", "small-linear", "medium",
                   "medium-single-site", "medium-multi-site"]


def names_clash(cs):
    a, b, c = set(cs["os"]), set(cs["services"]), set(cs["processes"])
    return bool((a & b) or (a & c) or (b & c))


def decoys_of(cs):
    """Scenarios built and used in the same process BEFORE the scenario under test, with the same name:
    A shifts the layout (different name sets, same row length where possible, every subnet public, another
    topology); B has the same name sets in reversed order and the same bounds.  A process-global cache keyed by
    scenario name / vector size / name sets that survives into the scenario under test shows up as a violation."""
    os_l, srv_l, proc_l = list(cs["os"]), list(cs["services"]), list(cs["processes"])
    if len(os_l) >= 2:
        a_names = (os_l[:-1], srv_l + ["zz_decoy_srv"], proc_l)
    elif len(srv_l) >= 2:
        a_names = (os_l, srv_l[:-1], proc_l + ["zz_decoy_proc"])
    elif len(proc_l) >= 2:
        a_names = (os_l + ["zz_decoy_os"], srv_l, proc_l[:-1])
    else:
        a_names = (os_l + ["zz_decoy_os"], srv_l, proc_l)
    b_names = (os_l[::-1], srv_l[::-1], proc_l[::-1])
    c_names = ([x + "_zz" for x in os_l], [x + "_zz" for x in srv_l], [x + "_zz" for x in proc_l])
    n = len(cs["subnets"])
    out = []
    # the decoy built last is the one whose traces a stale cache would carry over: alternate by scenario
    order_ = (("A", a_names), ("B", b_names), ("C", c_names))
    if sum(ord(ch) for ch in cs["name"]) % 2:
        order_ = (("A", a_names), ("C", c_names), ("B", b_names))
    for tag, (o, sv, pr) in order_:
        hosts = {}
        order = [tuple(h) for h in cs["hosts"]]
        if tag == "B":
            order = order[::-1]
        for i, h in enumerate(order):
            hosts[h] = H(o[i % len(o)], sv, pr, value=0, dvalue=0)
        edges = [(0, s) for s in range(1, n)] + [(s, s + 1) for s in range(1, n - 1)]
        t = topo(n, edges)
        fw = {}
        for a_ in range(n):
            for b_ in range(n):
                if a_ != b_ and t[a_][b_]:
                    fw[(a_, b_)] = list(sv)
        # decoy C has as many exploit / escalation definitions as the scenario under test (same action-space size),
        # naming its own OSs, services and processes
        ne_ = max(1, len(cs["exploits"])) if tag == "C" else 1
        np_ = max(1, len(cs["privescs"])) if tag == "C" else 1
        exs = {"e_d%d" % i: E(sv[i % len(sv)], o[i % len(o)] if i % 2 else None, 1.0, 1 + i, R) for i in range(ne_)}
        pes = {"pe_d%d" % i: P(pr[i % len(pr)], o[i % len(o)] if i % 2 == 0 else None, 1.0, 1 + i, R) for i in range(np_)}
        sp = dict(name=cs["name"], subnets=list(cs["subnets"][1:]), topology=t, os=list(o), services=list(sv),
                  processes=list(pr), hosts=hosts,
                  exploits=exs, privescs=pes,
                  fw=fw, sens={order[0]: 1}, scan_costs=(1, 1, 1, 1), step_limit=None,
                  bounds=tuple(cs["bounds"]), extra=[])
        out.append(sp)
    return out


def run_numbers_decoy(scn, steps=25):
    """Decoys D: the scenario under test itself - same name, same names, layout, hosts and wiring - with other NUMBERS,
    one group at a time (only the scan costs / only the exploit and escalation costs, probabilities and access levels /
    only the host and sensitive values and the step limit / only the firewall rules, all opened) and finally all of
    them, each built and stepped in both action modes before any environment of the scenario under test exists.  A
    process-global cache whose key leaves one of these groups out then shows up in the scenario under test."""
    import copy
    import random
    from nasim.envs import NASimEnv
    from nasim.scenarios import Scenario
    # order: the all-different decoy first AND last (a name-keyed cache that keeps the first, or the last, thing it saw
    # holds nothing right), the one-group decoys in between (a cache whose key leaves exactly that group out is filled
    # by the decoy that agrees with the scenario under test on the rest of the key)
    every = ("scan", "defs", "values", "fw")
    for groups in (every, ("scan",), ("defs",), ("values",), ("fw",), every):
        try:
            d = copy.deepcopy(scn.scenario_dict)
            if "scan" in groups:
                for k in ("service_scan_cost", "os_scan_cost", "subnet_scan_cost", "process_scan_cost"):
                    if k in d:
                        d[k] = float(d[k]) * 3 + 0.5
            if "defs" in groups:
                for sect in ("exploits", "privilege_escalation"):
                    for e in d.get(sect, {}).values():
                        e["cost"] = float(e["cost"]) * 2 + 1
                        e["prob"] = 0.25 if float(e["prob"]) > 0.5 else 0.75
                        e["access"] = 3 - int(e["access"])
            if "values" in groups:
                d["sensitive_hosts"] = {a: float(v) * 2 + 3 for a, v in d["sensitive_hosts"].items()}
                for a, h in d["host"].items():
                    h.value = d["sensitive_hosts"].get(a, float(h.value) + 1)
                    h.discovery_value = float(h.discovery_value) + 2
                d["step_limit"] = 7
            if "fw" in groups:
                for a, h in d["host"].items():
                    h.firewall = {}
                d["firewall"] = {pair: list(d["services"]) for pair in d["firewall"]}
            decoy = Scenario(d, name=scn.name, generated=getattr(scn, "generated", False))
            rng = random.Random(11)
            for fa in (True, False):
                env = NASimEnv(decoy, fully_obs=not fa, flat_actions=fa, flat_obs=fa)
                env.reset()
                for _ in range(steps):
                    env.step(env.action_space.sample() if not fa else rng.randrange(env.action_space.n))
                if fa:
                    env.get_action_mask()
                env.get_score_upper_bound()
                env.get_minimum_hops()
                del env
        except Exception:      # a decoy is only there to leave process-global traces behind
            if os.environ.get("VERIF_DEBUG_DECOY"):
                raise


def run_decoys(cs, steps=8):
    import random
    from nasim.envs import NASimEnv
    rng = random.Random(7)
    for sp in decoys_of(cs):
        try:
            env = NASimEnv(build_dict_scenario(sp), fully_obs=False, flat_actions=True, flat_obs=True)
            env.reset()
            for _ in range(steps):
                env.step(rng.randrange(env.action_space.n))
            env.get_action_mask()
            del env
        except Exception:      # a decoy is only there to leave process-global traces behind
            pass
