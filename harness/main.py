"""./check <property> [--tier quick|thorough] [--replay <path>]   (also: selftest, all)"""
import argparse
import collections
import json
import os
import sys
import time

ROOT = os.path.dirname(os.path.dirname(os.path.abspath(__file__)))
sys.path[:0] = [ROOT, os.environ.get("VERIF_REPO", "/repo")]
os.environ.setdefault("PYTHONHASHSEED", "0")

from harness import common, dynamic, corpus, tlc   # noqa: E402
from harness.common import Verdict                  # noqa: E402

# every (action kind, deciding gate) class of NASimCore!Trans; a class never exercised on the implementation is
# reported in the evidence as a coverage gap
ALL_GATES = [(k, g) for k in ("service_scan", "os_scan", "subnet_scan", "process_scan", "exploit", "privesc")
             for g in ("not_reach_disc",)] + \
    [("service_scan", "no_pivot"), ("os_scan", "no_pivot"), ("exploit", "no_pivot"), ("exploit", "traffic_blocked"),
     ("privesc", "privesc_uncompromised"), ("exploit", "unlucky"), ("privesc", "unlucky"),
     ("subnet_scan", "sscan_uncompromised"), ("subnet_scan", "sscan_no_access"), ("subnet_scan", "sscan_ok"),
     ("service_scan", "scan_ok"), ("os_scan", "scan_ok"), ("exploit", "exploit_ok"),
     ("exploit", "exploit_cfg_fail_perm"), ("exploit", "exploit_cfg_fail"), ("process_scan", "onhost_no_access"),
     ("process_scan", "pscan_ok"), ("privesc", "onhost_no_access"), ("privesc", "privesc_ok"),
     ("privesc", "privesc_cfg_fail"), ("noop", "noop")]

BASE_PROPS = ["C01", "C02", "C03", "C04", "C05", "C06", "C07", "C08", "C13"]
DYNAMIC_PROPS = BASE_PROPS + ["C09", "C10", "C11", "C12"]
GEN_BENCH = ["tiny-gen", "tiny-gen-rgoal", "small-gen", "small-gen-rgoal", "medium-gen", "large-gen", "huge-gen",
             "pocp-1-gen", "pocp-2-gen"]


def exh(src, **kw):
    return dict(src=src, exhaustive=True, **kw)


def rnd(src, n, sd, **kw):
    return dict(src=src, random_steps=n, seed=sd, **kw)


def agt(src, cap, sd, **kw):
    return dict(src=src, agents=cap, seed=sd, extras=False, **kw)


def gen_src(name, seed, **params):
    p = dict(num_hosts=5, num_services=2, seed=seed)
    p.update(params)
    return ("gen", p, "%s-s%d" % (name, seed))


def layout_gen_sources(seed, n):
    """generated scenarios with custom (larger) address bounds and 1..10 OS / services / processes"""
    out = []
    shapes = [(1, 1, 1), (3, 2, 4), (2, 5, 1), (4, 3, 3), (1, 7, 2), (6, 2, 6), (10, 4, 2), (2, 10, 3), (3, 3, 10),
              (5, 6, 5)]
    for i in range(n):
        nos, nsrv, nproc = shapes[i % len(shapes)]
        nh = 3 + (i * 3) % 9
        out.append(gen_src("layout%d" % i, seed + i, num_hosts=nh, num_services=nsrv, num_os=nos,
                           num_processes=nproc, address_space_bounds=(6 + i % 5, 5 + (i * 2) % 6),
                           uniform=(i % 2 == 0), r_sensitive=10 + i, r_user=7.5, base_host_value=(i % 3) - 1,
                           host_discovery_value=[0, 0.5, -3, 150, 1.5][i % 5], step_limit=50))
    return out


def dynamic_jobs(tier, seed, prop):
    from harness.replay import ALL_MODES
    jobs = []
    quick = tier == "quick"
    if prop in BASE_PROPS:
        for n in corpus.names():
            jobs.append(exh(("corpus_dict", n)))
        for n in ["fw_asym", "deny", "two_public", "user_only", "two_layer", "name_clash", "unordered_chain", "twins"]:
            jobs.append(exh(("corpus_yaml", n)))
        jobs.append(exh(("bench_yaml", "tiny")))
        if quick:
            jobs.append(rnd(("bench_yaml", "medium-multi-site"), 500, seed + 1))
            jobs.append(rnd(("bench_gen", "small-gen", seed % 50), 700, seed + 2))
            jobs.append(rnd(("bench_yaml", "tiny-small"), 700, seed + 3))
            jobs.append(rnd(gen_src("dvsum", seed % 50, num_hosts=12, num_services=2, host_discovery_value=3,
                                    r_sensitive=10, r_user=4, base_host_value=0.5), 500, seed + 6))
            # the repository's own drivers (bruteforce agent = what its test-suite runs, random agent) against a
            # recording proxy; numpy's own generator draws
            # a large scenario (state tensor of more than 1000 cells) driven to its goal and beyond
            jobs.append(dict(src=("bench_gen", "huge-gen", seed % 50), sweep=2500, seed=seed + 9, extras=False,
                             decoy=False))
            # 68 hosts (rows beyond 64), two gateways, second episode in the opposite host order
            jobs.append(dict(src=("corpus_dict", "big68"), sweep=1200, seed=seed + 10, extras=False, decoy=False))
            jobs.append(agt(("bench_yaml", "tiny"), 800, seed + 7, modes=ALL_MODES))
            jobs.append(agt(("bench_yaml", "small"), 700, seed + 8))
            if prop in ("C07", "C14"):
                # numpy's own generator draws (seeded by the harness), the draw is recorded, not scripted
                # (one environment per process, so that nothing else draws from the global generator)
                jobs.append(rnd(("bench_yaml", "tiny"), 1500, seed + 4, record_draws=True, extras=False,
                                modes=((False, True, True),)))
                jobs.append(rnd(("corpus_dict", "os_mix"), 1500, seed + 5, record_draws=True, extras=False,
                                modes=((True, False, False),)))
    elif prop == "C09":
        for n in ["os_mix", "chain", "fw_asym", "two_public", "unordered_chain", "twins", "name_clash"]:
            jobs.append(exh(("corpus_dict", n)))
        jobs.append(exh(("corpus_yaml", "deny")))
        jobs.append(exh(("bench_yaml", "tiny")))
        for src in layout_gen_sources(seed, 6 if quick else 40):
            jobs.append(rnd(src, 250 if quick else 600, seed + 5, modes=ALL_MODES[:4]))
    elif prop == "C10":
        for n in ["two_public", "os_mix"]:
            jobs.append(exh(("corpus_dict", n), modes=ALL_MODES))
        for n in ["fw_asym", "deny", "chain", "user_only", "unordered_chain"]:
            jobs.append(exh(("corpus_dict", n)))
        jobs.append(exh(("bench_yaml", "tiny"), modes=ALL_MODES))
        jobs.append(rnd(("bench_yaml", "small-honeypot"), 600, seed + 1, modes=ALL_MODES))
        jobs.append(rnd(("bench_gen", "medium-gen", seed % 50), 500, seed + 2, modes=ALL_MODES[:4]))
        for src in layout_gen_sources(seed + 50, 3):
            jobs.append(rnd(src, 300, seed + 6, modes=ALL_MODES))
        # environments obtained through gymnasium.make(<registered id>)
        ids = ["Tiny-v0", "TinyPO-v0", "TinySmall2D-v0", "SmallPOVA-v0", "TinyHardPO2DVA-v0", "MediumMultiSite2DVA-v0"]
        if not quick:
            ids = ["%s%s%s%s-v0" % ("".join(g.capitalize() for g in n.split("-")), po, d2, va)
                   for n in corpus.YAML_BENCHMARKS for po in ("", "PO") for d2 in ("", "2D") for va in ("", "VA")]
        for i, env_id in enumerate(ids):
            jobs.append(rnd(("gym", env_id), 200 if quick else 400, seed + 40 + i, decoy=False))
    elif prop == "C11":
        for n in corpus.names():
            jobs.append(exh(("corpus_dict", n)))
        jobs.append(exh(("corpus_yaml", "deny")))
        jobs.append(exh(("bench_yaml", "tiny")))
        jobs.append(rnd(("bench_yaml", "medium"), 300, seed + 1))
        jobs.append(rnd(("bench_gen", "small-gen-rgoal", seed % 50), 300, seed + 2))
        jobs.append(rnd(("bench_yaml", "small"), 300, seed + 3))
    elif prop == "C12":
        for n in ["fw_asym", "deny", "two_public", "os_mix", "user_only", "twins"]:
            jobs.append(exh(("corpus_dict", n), modes=ALL_MODES, foreign=False))
        jobs.append(exh(("corpus_yaml", "two_public"), modes=ALL_MODES, foreign=False))
        jobs.append(rnd(("bench_yaml", "tiny-small"), 300, seed + 1, modes=ALL_MODES, lockstep=True))
        jobs.append(rnd(("bench_gen", "small-gen", seed % 50), 300, seed + 2, modes=ALL_MODES, lockstep=True))
        jobs.append(rnd(("bench_yaml", "medium"), 200, seed + 3, modes=ALL_MODES, lockstep=True))
    if not quick:
        for n in ["tiny-hard", "tiny-small", "small-linear", "small", "small-honeypot"]:
            jobs.append(exh(("bench_yaml", n), foreign=(n.startswith("tiny")), workers=2, timeout=7200,
                            modes=ALL_MODES if (prop in ("C10", "C12") and n.startswith("tiny")) else replay_default()))
        if prop in ("C07", "C14"):
            for i, n in enumerate(["tiny", "tiny-small", "small", "medium"]):
                jobs.append(rnd(("bench_yaml", n), 8000, seed + 300 + i, record_draws=True, extras=False,
                                modes=((bool(i % 2), True, True),)))
        if prop in BASE_PROPS:
            for n in ["medium", "medium-single-site"]:
                jobs.append(dict(src=("bench_yaml", n), spec_only=True, workers=8, timeout=7200))
            for i, n in enumerate(["tiny-hard", "small-honeypot", "small-linear", "medium", "medium-multi-site"]):
                jobs.append(agt(("bench_yaml", n), 2500, seed + 400 + i, modes=ALL_MODES))
            for i, n in enumerate(["tiny-gen", "small-gen", "medium-gen"]):
                jobs.append(agt(("bench_gen", n, (seed + i) % 100), 2500, seed + 420 + i, modes=ALL_MODES))
            for i, n in enumerate(["large-gen", "huge-gen", "pocp-1-gen", "huge-gen", "pocp-1-gen"]):
                jobs.append(dict(src=("bench_gen", n, (seed + 7 * i) % 100), sweep=4000, seed=seed + 440 + i, extras=False,
                                 decoy=False, modes=replay_default()))
            for i, n in enumerate(["medium", "medium-single-site", "medium-multi-site", "small-linear"]):
                jobs.append(dict(src=("bench_yaml", n), sweep=3000, seed=seed + 450 + i, extras=False,
                                 modes=replay_default()))
        ls = prop == "C12"
        md = ALL_MODES if prop in ("C10", "C12") else replay_default()
        for i, n in enumerate(corpus.YAML_BENCHMARKS):
            jobs.append(rnd(("bench_yaml", n), 3000 if not ls else 600, seed + 10 + i, modes=md, lockstep=ls))
        for i, n in enumerate(GEN_BENCH):
            for s_ in range(2):
                jobs.append(rnd(("bench_gen", n, (seed + s_) % 100), (2500 if i < 6 else 1200) if not ls else 400,
                                seed + 100 + 2 * i + s_, modes=md, lockstep=ls))
    # longest first so that the pool is used well
    jobs.sort(key=lambda j: -((j.get("random_steps", 0) + 3 * j.get("agents", 0) + 4 * j.get("sweep", 0))
                              * len(j.get("modes", (1, 2)))
                              + (100000 if j.get("exhaustive") else 0) * len(j.get("modes", (1, 2)))))
    return jobs


def replay_default():
    from harness.replay import DEFAULT_MODES
    return DEFAULT_MODES


def check_dynamic(prop, tier, seed):
    v = Verdict(prop)
    t0 = time.time()
    jobs = dynamic_jobs(tier, seed, prop)
    apa = None
    apa_future = None
    tlaps_future, tlaps_res = None, None
    if prop in ("C03", "C04"):
        # design-level obligations over SYMBOLIC scenarios (Apalache), run beside the TLC jobs
        import concurrent.futures as cf
        from harness import apalache
        which = None if prop == "C03" else ["IndInv /\\ Next => Monotone"]
        pool_ = cf.ThreadPoolExecutor(max_workers=1)
        apa_future = pool_.submit(apalache.run, which)
        from harness import tlaps
        tlaps_future = cf.ThreadPoolExecutor(max_workers=1).submit(tlaps.run, tier == "thorough")
    results = dynamic.run_jobs(jobs, procs=12 if tier == "thorough" else 8)
    if apa_future is not None:
        apa = apa_future.result()
        for (n_, ok_, sec_, tail_) in apa:
            if not ok_:
                v.machinery.append("Apalache obligation '%s' on NASimSym.tla not discharged: %s" % (n_, tail_[-300:]))
    if tlaps_future is not None:
        tlaps_res = tlaps_future.result()
        if not tlaps_res["proved"]:
            v.machinery.append("TLAPS: spec/NASimProof.tla not proved: %s" % tlaps_res["tail"][-300:])
        if tlaps_res.get("broken_variant_refused") is False:
            v.machinery.append("TLAPS: the broken variant of NASimProof.tla was proved (vacuous proof?)")
    states = transitions = events = edges = 0
    classes = set()
    seen_gates = set()
    clause_fail = collections.Counter()
    drift = collections.Counter()
    beyond = collections.Counter()
    samples = []
    per_scn = []
    notes = []
    for r in results:
        if r.get("load_refused"):
            notes.append("scenario %s not available: loader refused it (%s) - reported under C17" % (
                r["name"], r["load_refused"][:100]))
            continue
        if r["machinery"]:
            v.machinery.append("%s: %s" % (r["name"], r["machinery"][-600:]))
            continue
        states += r["states"]
        transitions += r["transitions"]
        events += r["events"]
        edges += r["edges_replayed"]
        for k in r["hist"]:
            classes.add((r["name"], k))
            kind_, gate_ = k.split("/")[0], k.split("/")[1]
            seen_gates.add((kind_, gate_))
        per_scn.append(dict(scenario=r["name"], spec_states=r["states"], spec_transitions=r["transitions"],
                            transitions_replayed=r["edges_replayed"], recorded_calls=r["events"],
                            gate_classes=len(r["hist"]), wall_s=round(r["wall"], 1),
                            **({"repository_agents": r["agents"]} if r.get("agents") else {}),
                            **({"goal_seeking_sweep": r["sweep"]} if r.get("sweep") else {})))
        if len(samples) < 3 and r.get("sample"):
            samples.append(dict(scenario=r["name"], event=r["sample"][0]))
        for (p, c, i) in r["fails"]:
            if p == "BEYOND":
                beyond[c] += 1
            elif p == "DRIFT":
                drift[(r["name"], c)] += 1
            elif p == prop:
                clause_fail[(r["name"], c)] += 1
        mine = [(p, c, i) for (p, c, i) in r["fails"] if p == prop]
        if mine:
            v.violation("%s: clause %s fails at recorded call %d of scenario %s (%d failing calls)" % (
                prop, mine[0][1], mine[0][2], r["name"], len(mine)), r.get("replay", "?"))
    cov = dict(states=states, transitions=transitions, traces_validated_against_impl=events,
               transitions_replayed_into_impl=edges,
               evaluations=events, distinct_nontrivial=len(classes),
               rule="TLC explores NASimEnv exhaustively per scenario (states/transitions = distinct states / generated "
                    "transitions, every clause of C01-C08 evaluated on each); every transition of the exhaustive "
                    "scenarios is executed on the real environment and seeded drivers record further runs; "
                    "traces_validated_against_impl = recorded API calls validated by the TLC trace monitor; "
                    "distinct_nontrivial = distinct (scenario, action kind, deciding gate, draw side) classes "
                    "exercised on the implementation",
               exhaustive=False, samples=samples or [dict(note="no successful state-changing call recorded")],
               per_scenario=per_scn,
               failed_clauses={"%s/%s" % k: n for k, n in clause_fail.items()},
               drift_notes={"%s/%s" % k: n for k, n in drift.items()}, notes=notes,
               gate_classes_never_exercised=["%s/%s" % g for g in ALL_GATES if g not in seen_gates],
               beyond_list_observations=dict(beyond))
    if apa is not None:
        cov["apalache_symbolic_scenario_obligations"] = [dict(obligation=n_, discharged=ok_, seconds=sec_)
                                                        for (n_, ok_, sec_, _) in apa]
    if tlaps_res is not None:
        cov["tlaps_unbounded_inductive_invariant"] = {k: tlaps_res[k] for k in tlaps_res if k != "tail"}
    common.write_evidence(prop, tier, seed, "model_checking", cov, time.time() - t0, len(v.violations))
    return v.finish()


def replay_dynamic(prop, path):
    """re-validate a saved trace with the monitor and report the clauses of `prop` that fail"""
    base = path[:-len(".ndjson")] if path.endswith(".ndjson") else path
    with open(base + ".tla") as fh:
        tla = fh.read()
    m = tlc.run_monitor(tla, base + ".ndjson")
    mine = [f for f in m.fails() if f[0] == prop]
    for f in mine[:50]:
        print("FAIL %s %s at recorded call %d" % f)
    if mine:
        print("VIOLATION property=%s replay=%s" % (prop, path))
        return 1
    print("OK property=%s (replay)" % prop)
    return 0


def replay_file(prop, path):
    print("replay artefact for %s: %s" % (prop, path))
    print(open(path).read()[:4000])
    return 0


from harness import checks_fmt   # noqa: E402

CHECKS = {p: check_dynamic for p in DYNAMIC_PROPS}
REPLAYS = {p: replay_dynamic for p in DYNAMIC_PROPS}
CHECKS["C17"] = checks_fmt.check_c17
CHECKS["C18"] = checks_fmt.check_c18
REPLAYS["C17"] = checks_fmt.replay_doc
REPLAYS["C18"] = checks_fmt.replay_doc
from harness import checks_plan   # noqa: E402
CHECKS["C16"] = checks_plan.check_c16
REPLAYS["C16"] = checks_plan.replay_c16
from harness import checks_multi   # noqa: E402
CHECKS["C19"] = checks_multi.check_c19
REPLAYS["C19"] = replay_dynamic
CHECKS["C20"] = checks_plan.check_c20
REPLAYS["C20"] = replay_dynamic
from harness import checks_gen   # noqa: E402
CHECKS["C15"] = checks_gen.check_c15
REPLAYS["C15"] = checks_gen.replay_c15
CHECKS["C14"] = checks_gen.check_c14
REPLAYS["C14"] = checks_gen.replay_c14


def main():
    ap = argparse.ArgumentParser()
    ap.add_argument("prop")
    ap.add_argument("--tier", default=None)
    ap.add_argument("--replay", default=None)
    a = ap.parse_args()
    if a.tier:
        os.environ["VERIF_TIER"] = a.tier
    tier, seed = common.tier(), common.seed()
    if a.prop == "selftest":
        from harness import selftest
        return selftest.run(light=(os.environ.get("SELFTEST_LIGHT") == "1"))
    if a.prop == "all":
        rc = 0
        for p in sorted(CHECKS):
            rc = max(rc, CHECKS[p](p, tier, seed))
        return rc
    if a.prop not in CHECKS:
        print("unknown property %s" % a.prop, file=sys.stderr)
        return 2
    try:
        if a.replay:
            return REPLAYS[a.prop](a.prop, a.replay)
        return CHECKS[a.prop](a.prop, tier, seed)
    except tlc.TLCError as ex:
        print("MACHINERY-FAILURE property=%s %s" % (a.prop, str(ex)[-2000:]), file=sys.stderr)
        return 2


if __name__ == "__main__":
    sys.exit(main())
