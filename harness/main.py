"""./check <property> [--tier quick|thorough] [--replay <path>]   (also: selftest, all)"""
import argparse
import collections
import json
import os
import sys
import time

ROOT = os.path.dirname(os.path.dirname(os.path.abspath(__file__)))
sys.path[:0] = [ROOT, "/repo"]
os.environ.setdefault("PYTHONHASHSEED", "0")

from harness import common, dynamic, corpus, tlc   # noqa: E402
from harness.common import Verdict                  # noqa: E402

DYNAMIC_PROPS = ["C01", "C02", "C03", "C04", "C05", "C06", "C07", "C08", "C13"]


def dynamic_jobs(tier, seed, prop):
    jobs = []
    for n in corpus.names():
        jobs.append(dict(src=("corpus_dict", n), exhaustive=True))
    for n in ["fw_asym", "deny", "two_public", "user_only"]:
        jobs.append(dict(src=("corpus_yaml", n), exhaustive=True))
    jobs.append(dict(src=("bench_yaml", "tiny"), exhaustive=True))
    if tier == "quick":
        jobs.append(dict(src=("bench_yaml", "medium-multi-site"), random_steps=500, seed=seed + 1))
        jobs.append(dict(src=("bench_gen", "small-gen", seed % 50), random_steps=700, seed=seed + 2))
        jobs.append(dict(src=("bench_yaml", "tiny-small"), random_steps=700, seed=seed + 3))
    else:
        for n in ["tiny-hard", "tiny-small", "small-linear", "small", "small-honeypot"]:
            jobs.append(dict(src=("bench_yaml", n), exhaustive=True, foreign=(n.startswith("tiny")), workers=2,
                             timeout=7200))
        for i, n in enumerate(corpus.YAML_BENCHMARKS):
            jobs.append(dict(src=("bench_yaml", n), random_steps=3000, seed=seed + 10 + i))
        for i, n in enumerate(["tiny-gen", "tiny-gen-rgoal", "small-gen", "small-gen-rgoal", "medium-gen",
                               "large-gen", "huge-gen", "pocp-1-gen", "pocp-2-gen"]):
            for s in range(2):
                jobs.append(dict(src=("bench_gen", n, (seed + s) % 100),
                                 random_steps=2500 if i < 6 else 1200, seed=seed + 100 + 2 * i + s))
    # longest first so that the pool is used well
    jobs.sort(key=lambda j: -(j.get("random_steps", 0) + (100000 if j.get("exhaustive") and j["src"][0] == "bench_yaml" else 0)))
    return jobs


def check_dynamic(prop, tier, seed):
    v = Verdict(prop)
    t0 = time.time()
    jobs = dynamic_jobs(tier, seed, prop)
    results = dynamic.run_jobs(jobs, procs=12 if tier == "thorough" else 8)
    states = transitions = events = edges = 0
    classes = set()
    clause_fail = collections.Counter()
    drift = collections.Counter()
    samples = []
    per_scn = []
    notes = []
    for r in results:
        if r.get("load_refused"):
            notes.append("scenario %s not available: loader refused it (%s) - reported under C17" % (
                r["name"], r["load_refused"][:100]))
            continue
        if r["machinery"]:
            v.machinery.append("%s: %s" % (r["name"], r["machinery"][-600:]))
            continue
        states += r["states"]
        transitions += r["transitions"]
        events += r["events"]
        edges += r["edges_replayed"]
        for k in r["hist"]:
            classes.add((r["name"], k))
        per_scn.append(dict(scenario=r["name"], spec_states=r["states"], spec_transitions=r["transitions"],
                            transitions_replayed=r["edges_replayed"], recorded_calls=r["events"],
                            gate_classes=len(r["hist"]), wall_s=round(r["wall"], 1)))
        if len(samples) < 3 and r.get("sample"):
            samples.append(dict(scenario=r["name"], event=r["sample"][0]))
        for (p, c, i) in r["fails"]:
            if p == "DRIFT":
                drift[(r["name"], c)] += 1
            elif p == prop:
                clause_fail[(r["name"], c)] += 1
        mine = [(p, c, i) for (p, c, i) in r["fails"] if p == prop]
        if mine:
            v.violation("%s: clause %s fails at recorded call %d of scenario %s (%d failing calls)" % (
                prop, mine[0][1], mine[0][2], r["name"], len(mine)), r.get("replay", "?"))
    cov = dict(states=states, transitions=transitions, traces_validated_against_impl=events,
               transitions_replayed_into_impl=edges,
               evaluations=events, distinct_nontrivial=len(classes),
               rule="TLC explores NASimEnv exhaustively per scenario (states/transitions = distinct states / generated "
                    "transitions, every clause of C01-C08 evaluated on each); every transition of the exhaustive "
                    "scenarios is executed on the real environment and seeded drivers record further runs; "
                    "traces_validated_against_impl = recorded API calls validated by the TLC trace monitor; "
                    "distinct_nontrivial = distinct (scenario, action kind, deciding gate, draw side) classes "
                    "exercised on the implementation",
               exhaustive=False, samples=samples or [dict(note="no successful state-changing call recorded")],
               per_scenario=per_scn,
               failed_clauses={"%s/%s" % k: n for k, n in clause_fail.items()},
               drift_notes={"%s/%s" % k: n for k, n in drift.items()}, notes=notes)
    common.write_evidence(prop, tier, seed, "model_checking", cov, time.time() - t0, len(v.violations))
    return v.finish()


def replay_dynamic(prop, path):
    """re-validate a saved trace with the monitor and report the clauses of `prop` that fail"""
    base = path[:-len(".ndjson")] if path.endswith(".ndjson") else path
    with open(base + ".tla") as fh:
        tla = fh.read()
    m = tlc.run_monitor(tla, base + ".ndjson")
    mine = [f for f in m.fails() if f[0] == prop]
    for f in mine[:50]:
        print("FAIL %s %s at recorded call %d" % f)
    if mine:
        print("VIOLATION property=%s replay=%s" % (prop, path))
        return 1
    print("OK property=%s (replay)" % prop)
    return 0


CHECKS = {p: check_dynamic for p in DYNAMIC_PROPS}
REPLAYS = {p: replay_dynamic for p in DYNAMIC_PROPS}


def main():
    ap = argparse.ArgumentParser()
    ap.add_argument("prop")
    ap.add_argument("--tier", default=None)
    ap.add_argument("--replay", default=None)
    a = ap.parse_args()
    if a.tier:
        os.environ["VERIF_TIER"] = a.tier
    tier, seed = common.tier(), common.seed()
    if a.prop == "all":
        rc = 0
        for p in sorted(CHECKS):
            rc = max(rc, CHECKS[p](p, tier, seed))
        return rc
    if a.prop not in CHECKS:
        print("unknown property %s" % a.prop, file=sys.stderr)
        return 2
    try:
        if a.replay:
            return REPLAYS[a.prop](a.prop, a.replay)
        return CHECKS[a.prop](a.prop, tier, seed)
    except tlc.TLCError as ex:
        print("MACHINERY-FAILURE property=%s %s" % (a.prop, str(ex)[-2000:]), file=sys.stderr)
        return 2


if __name__ == "__main__":
    sys.exit(main())
