"""C19: environment instances are independent of each other (spec/NASimMulti.tla)."""
import collections
import copy
import hashlib
import json
import multiprocessing as mp
import os
import re
import shutil
import sys
import time
import traceback

from harness import common, tlc, corpus, pyref, checks_plan
from harness.common import Verdict
from harness.export import render_scenario_tla


def variant_content(sp):
    """same name, same layout (names, bounds, sizes), different content: host services, firewall, exploit and
    escalation definitions, values"""
    v = copy.deepcopy(sp)
    hs = list(v["hosts"].keys())
    for i, h in enumerate(hs):
        d = v["hosts"][h]
        d["srv"] = [sp["services"][(i + 1) % len(sp["services"])]]
        d["value"] = 0
    v["fw"] = {k: list(sp["services"]) for k in sp["fw"]}
    srv = list(sp["services"])
    for j, (n, e) in enumerate(v["exploits"].items()):
        e["service"] = srv[(srv.index(e["service"]) + 1) % len(srv)]
        e["cost"] = e["cost"] + 1.5
        e["prob"] = 1.0 if e["prob"] < 1.0 else 0.5
        e["os"] = None
    for j, (n, e) in enumerate(v["privescs"].items()):
        e["cost"] = e["cost"] + 0.5
    return v


def variant_middle(sp):
    """same name and layout; only hosts in the MIDDLE of the row order differ (processes, services kept, value):
    the first and last rows of the state tensor are identical in both scenarios"""
    v = copy.deepcopy(sp)
    hs = list(v["hosts"].keys())
    for i, h in enumerate(hs):
        if 5 <= i < len(hs) - 5:
            d = v["hosts"][h]
            d["proc"] = [] if d["proc"] else list(sp["processes"][:1])
            if h not in sp["sens"]:
                d["value"] = 0.5
    return v


def variant_more_hosts(sp):
    """same name, names and address bounds, but the smallest subnet has one host more (copy of its first host)"""
    v = copy.deepcopy(sp)
    sizes = list(v["subnets"])
    s = min(range(len(sizes)), key=lambda i: sizes[i])
    assert sizes[s] < max(sizes)
    v["hosts"][(s + 1, sizes[s])] = copy.deepcopy(v["hosts"][(s + 1, 0)])
    sizes[s] += 1
    v["subnets"] = sizes
    return v


def variant_other_firewall(sp):
    """the same network, hosts, definitions and sensitive hosts; only the subnet firewall differs: every rule allows
    exactly the services the original does not"""
    v = copy.deepcopy(sp)
    v["fw"] = {k: [s for s in sp["services"] if s not in allowed] for k, allowed in sp["fw"].items()}
    return v


def variant_other_services(sp):
    """the same network, firewall, definitions and sensitive hosts; every host runs exactly the services (and
    processes) the original does NOT run (at least one)"""
    v = copy.deepcopy(sp)
    for h, d in v["hosts"].items():
        comp = [s for s in sp["services"] if s not in sp["hosts"][h]["srv"]]
        d["srv"] = comp or [sp["services"][0]]
        d["proc"] = [p for p in sp["processes"] if p not in sp["hosts"][h]["proc"]]
    return v


def variant_host_order(sp):
    """the same network with the hosts listed in another order (another address -> row mapping)"""
    v = copy.deepcopy(sp)
    items = list(v["hosts"].items())
    v["hosts"] = dict(items[1:] + items[:1])
    return v


def variant_renamed(sp):
    """same sizes, different names"""
    def r(x):
        return None if x is None else x + "_r"
    v = copy.deepcopy(sp)
    v["name"] = sp["name"] + "_renamed"
    v["os"] = [r(x) for x in sp["os"]]
    v["services"] = [r(x) for x in sp["services"]]
    v["processes"] = [r(x) for x in sp["processes"]]
    for d in v["hosts"].values():
        d["os"] = r(d["os"])
        d["srv"] = [r(x) for x in d["srv"]]
        d["proc"] = [r(x) for x in d["proc"]]
        d["deny"] = {k: [r(x) for x in vv] for k, vv in d["deny"].items()}
    v["fw"] = {k: [r(x) for x in vv] for k, vv in sp["fw"].items()}
    for e in v["exploits"].values():
        e["service"], e["os"] = r(e["service"]), r(e["os"])
    for e in v["privescs"].values():
        e["process"], e["os"] = r(e["process"]), r(e["os"])
    return v


def layout_id(cs):
    return json.dumps([cs["bounds"], cs["os"], cs["services"], cs["processes"]])


def pairs(tier):
    S = corpus.SPECS
    ps = [("same_scenario", [S["user_only"], S["user_only"]]),
          ("same_layout_other_content", [S["fw_asym"], variant_content(S["fw_asym"])]),
          ("same_layout_other_host_order", [S["two_layer"], variant_host_order(S["two_layer"])]),
          ("different_sizes", [S["user_only"], S["fw_asym"]]),
          ("same_sizes_other_names", [S["deny"], variant_renamed(S["deny"])])]
    # parameterised action spaces built from the very same Scenario object
    ps.append(("shared_scenario_object_param_actions", [S["os_mix"], S["os_mix"]]))
    # one environment stays idle while the other makes a long run of calls
    ps.append(("long_one_sided_history", [S["twins"], S["twins"]]))
    # same layout (bounds, names), another number of hosts in one subnet
    ps.append(("same_layout_other_subnet_sizes", [S["twins"], variant_more_hosts(S["twins"])]))
    # the same wiring and hosts, complementary firewall rules; both sides try every exploit on the first hosts
    ps.append(("same_wiring_other_firewall", [S["fw_asym"], variant_other_firewall(S["fw_asym"])]))
    # the same wiring and firewall, complementary host configurations; both sides try every exploit on the first hosts
    ps.append(("same_wiring_other_host_services", [S["fw_asym"], variant_other_services(S["fw_asym"])]))
    # two large networks (state tensors of more than 1000 cells) that differ only in the middle rows, fully observable
    ps.append(("large_same_layout_middle_rows_differ", [S["big68"], variant_middle(S["big68"])]))
    if tier == "thorough":
        ps += [("three_envs", [S["user_only"], S["deny"], variant_content(S["deny"])]),
               ("same_scenario_bigger", [S["chain"], S["chain"]]),
               ("bounds_differ", [S["os_mix"], S["two_layer"]])]
    return ps


MC = """---- MODULE MultiMC ----
EXTENDS NASimMulti
McEnvs == %(envs)s
McScnOf == %(scnof)s
McLayoutOf == %(layoutof)s
====
"""
CFG = """SPECIFICATION Spec
CONSTANTS
 Envs <- McEnvs
 ScnOf <- McScnOf
 LayoutOf <- McLayoutOf
 MaxDepth = %d
INVARIANT Emit
PROPERTY Frame
CHECK_DEADLOCK FALSE
"""


def schedules(n_envs, scn_ids, layouts, depth, workdir):
    """TLC enumerates every schedule up to `depth`; returns [[(kind, env, scn, foreign, kf, victims)...]]"""
    tlc.prepare(workdir)
    envs = "{" + ", ".join(str(i + 1) for i in range(n_envs)) + "}"
    scnof = "(" + " @@ ".join("%d :> {%d}" % (i + 1, scn_ids[i]) for i in range(n_envs)) + ")"
    lay = "(" + " @@ ".join("%d :> %d" % (s, l) for s, l in sorted(layouts.items())) + ")"
    with open(os.path.join(workdir, "MultiMC.tla"), "w") as fh:
        fh.write(MC % dict(envs=envs, scnof=scnof, layoutof=lay))
    r = tlc.run(workdir, "MultiMC", CFG % depth, workers=1, timeout=3000, heap="6g")
    if r.errors or not r.completed:
        raise tlc.TLCError("NASimMulti exploration failed:\n" + r.tail(30))
    out = []
    for m in re.finditer(r'<<\s*"SCHEDULE",\s*<<(.*?)>>\s*>>\s*(?=\n<<\s*"SCHEDULE"|\nModel|\nProgress|\Z)', r.out, re.S):
        evs = []
        for e in re.finditer(r'<<\s*"(create|reset|step)",\s*(\d+),\s*(\d+),\s*(TRUE|FALSE),\s*(TRUE|FALSE)\s*>>', m.group(1)):
            evs.append((e.group(1), int(e.group(2)), int(e.group(3)), e.group(4) == "TRUE", e.group(5) == "TRUE"))
        if evs:
            out.append(evs)
    return out, r


def snap(env):
    try:
        rd = json.dumps(env.current_state.get_readable(), default=str, sort_keys=True)
    except Exception as ex:       # decoding itself fails
        rd = "raised:%s" % type(ex).__name__
    return (env.current_state.tensor.tobytes(), env.last_obs.tensor.tobytes(), hashlib.sha256(rd.encode()).hexdigest())


def run_pair(job):
    t0 = time.time()
    name, specs, depth, max_sched = job["name"], job["specs"], job["depth"], job.get("max_schedules")
    share_object = name.startswith("shared_scenario_object")
    flat_actions = not share_object
    long_run = 160 if name.startswith("long_one_sided") else 0
    fully_obs = name.startswith("large_")
    res = dict(name=name, machinery=None, fails=[], known=[], schedules=0, events=0, states=0, transitions=0, logs=[])
    wd = tlc.scratch_dir()
    try:
        sys.path[:0] = [p for p in (corpus.REPO,) if p not in sys.path]
        from harness.rec import Recorder
        css = [corpus.cs_of(sp) for sp in specs]
        # scenario ids: equal specs share an id
        ids, uniq = [], []
        for sp in specs:
            for j, u in enumerate(uniq):
                if u is sp:
                    ids.append(j + 1)
                    break
            else:
                uniq.append(sp)
                ids.append(len(uniq))
        lay_names = {}
        layouts = {}
        for sp, i in zip(specs, ids):
            lid = layout_id(corpus.cs_of(sp))
            layouts[i] = lay_names.setdefault(lid, len(lay_names) + 1)
        swd = os.path.join(wd, "sched")
        os.makedirs(swd)
        scheds, r = schedules(len(specs), ids, layouts, depth, swd)
        res.update(states=r.distinct, transitions=r.generated)
        if max_sched and len(scheds) > max_sched:
            step = len(scheds) / float(max_sched)
            scheds = [scheds[int(i * step)] for i in range(max_sched)]
        res["schedules"] = len(scheds)
        # every Create builds the scenario afresh - through nasim.load_scenario when the file format can express
        # it (as nasim.load does), through the public constructors otherwise
        spec_by = {i: sp for sp, i in zip(specs, ids)}
        yaml_path = {}
        for i, sp in spec_by.items():
            if corpus.yaml_expressible(sp):
                ydir = os.path.join(wd, "y%d" % i)
                os.makedirs(ydir)
                yaml_path[i] = corpus.write_yaml(sp, os.path.join(ydir, sp["name"] + ".yaml"))

        shared = {}

        def fresh_scenario(i):
            import nasim
            if share_object:
                if i not in shared:
                    shared[i] = corpus.build_dict_scenario(spec_by[i])
                return shared[i]
            if i in yaml_path:
                return nasim.load_scenario(yaml_path[i])
            return corpus.build_dict_scenario(spec_by[i])

        if long_run:
            # hand-written schedules on top of TLC's: both built, then one side only for a long time, then the
            # idle one acts again (same layout: nothing is foreign)
            s_ = ids[0]
            body = [("step" if j % 7 else "reset", 2, s_, False, False) for j in range(long_run)]
            scheds = scheds[:60] + [[("create", 1, s_, False, False), ("create", 2, s_, False, False)] + body
                                    + [("step", 1, s_, False, False), ("reset", 1, s_, False, False),
                                       ("step", 1, s_, False, False)],
                                   [("create", 2, s_, False, False), ("create", 1, s_, False, False),
                                    ("step", 1, s_, False, False)] + body
                                   + [("step", 1, s_, False, False)]]
            res["schedules"] = len(scheds)
        if name in ("same_scenario", "same_layout_other_content"):
            # one environment is CLOSED (env.close()) while the other goes on
            s1_, s2_ = ids[0], ids[1]
            scheds = scheds + [[("create", 1, s1_, False, False), ("create", 2, s2_, False, False),
                                ("step", 1, s1_, False, False), ("step", 2, s2_, False, False),
                                ("close", 2, s2_, False, False), ("step", 1, s1_, False, False),
                                ("reset", 1, s1_, False, False), ("step", 1, s1_, False, False)],
                               [("create", 2, s2_, False, False), ("create", 1, s1_, False, False),
                                ("step", 1, s1_, False, False), ("close", 1, s1_, False, False),
                                ("step", 2, s2_, False, False), ("reset", 2, s2_, False, False)]]
            res["schedules"] = len(scheds)
        cs_by = {i: corpus.cs_of(sp) for sp, i in zip(specs, ids)}
        plans = {}
        for i, cs in cs_by.items():
            pwd = os.path.join(wd, "plan%d" % i)
            os.makedirs(pwd)
            ok, plan, _ = checks_plan.greedy_plan(cs, pwd)
            plans[i] = plan or [1, 2, 3]
            if name.startswith("same_wiring_other"):
                # probing: every exploit against the first two hosts, in the same order on both sides
                ph_ = pyref.per_host(cs)
                ne_ = len(cs["exploits"])
                plans[i] = [h_ * ph_ + 4 + j_ + 1 for h_ in range(min(2, len(cs["hosts"]))) for j_ in range(ne_)]
        recs = {i: Recorder(os.path.join(wd, "trace%d.ndjson" % i), len(cs_by[i]["hosts"]), cs=cs_by[i]) for i in cs_by}
        eid = 0
        # Action OBJECTS shared between environments (same layout): in every second schedule a step is made with the
        # member of the OTHER environment's action list that has the same index
        share_actions = name in ("same_layout_other_content", "same_wiring_other_firewall",
                                 "same_wiring_other_host_services", "same_layout_other_host_order", "same_scenario")
        for si_, sched in enumerate(scheds):
            live = {}            # slot -> (eid, scn id, env, step counter)
            cur_layout = None    # layout of the most recently built environment (what the class-level attributes hold)
            for (kind, slot, s, foreign, kf) in sched:
                before = {sl: snap(v[2]) for sl, v in live.items() if sl != slot}
                rec = recs[s]
                if kind == "create":
                    eid += 1
                    ev = rec.create(eid, fresh_scenario(s), fully_obs, flat_actions, True)
                    live[slot] = [eid, s, rec.envs[eid], 0]
                elif kind == "reset":
                    ev = rec.reset(live[slot][0])
                elif kind == "close":
                    try:
                        live[slot][2].close()
                        ev = rec.emit(dict(ev="closed", env=live[slot][0]))
                    except Exception as exc:      # noqa
                        ev = rec.raised(live[slot][0], "close", exc, "C10", "close_is_total")
                else:
                    k = plans[s][live[slot][3] % len(plans[s])]
                    live[slot][3] += 1
                    if len(live[slot]) > 4:
                        live[slot][4] = k
                    else:
                        live[slot].append(k)
                    a = pyref.flat_action(cs_by[s], k)
                    others_ = [v for sl_, v in live.items() if sl_ != slot]
                    if flat_actions and share_actions and si_ % 2 == 1 and others_ \
                            and len(others_[0][2].action_space.actions) > k - 1:
                        # the very object the other environment used last (if it has acted), else the member of its
                        # list with this environment's own index
                        ko = others_[0][4] if len(others_[0]) > 4 and si_ % 4 == 1 else k
                        sp_ = ("realobj", others_[0][2].action_space.actions[ko - 1])
                        a = pyref.flat_action(cs_by[others_[0][1]], ko)
                    elif flat_actions:
                        sp_ = ("int", k - 1)
                    else:
                        from harness.dynamic import encode_param
                        sp_ = ("ndarray", encode_param(cs_by[s], k))
                    ev = rec.step(live[slot][0], sp_, pyref.draw_for(a["prob"], True, 0))
                changed, dec_changed = [], []
                for sl, b in before.items():
                    a_ = snap(live[sl][2])
                    if a_[0] != b[0] or a_[1] != b[1]:
                        changed.append(sl)
                    if a_[2] != b[2]:
                        dec_changed.append(sl)
                last_layout = layouts[s] if kind == "create" else None
                victims = []
                if kind == "create":
                    # D9: environments whose layout differs from the one just built lose their decoding, and
                    # environments that had lost it (their layout differed from the one built BEFORE) get it back
                    victims = [sl for sl, v in live.items() if sl != slot and
                               (layouts[v[1]] != layouts[s] or (cur_layout is not None and layouts[v[1]] != cur_layout))]
                    cur_layout = layouts[s]
                # the event has been written already: append the C19 measurement as its own event
                rec.emit(dict(ev="c19", env=ev["env"], of=ev["i"], others_changed=changed,
                              others_decode_changed=dec_changed, kf=bool(kf), victims=victims, kind=kind))
        for rec in recs.values():
            rec.close()
        res["events"] = sum(rec.i for rec in recs.values())
        for i, cs in cs_by.items():
            mon = os.path.join(wd, "mon%d" % i)
            os.makedirs(mon)
            trace = os.path.join(wd, "trace%d.ndjson" % i)
            m = tlc.run_monitor(render_scenario_tla(cs), trace, workdir=mon)
            kf_events = set()
            c19_of = {}
            for line in open(trace):
                if '"ev":"c19"' in line:
                    e = json.loads(line)
                    c19_of[e["i"]] = e
                    if e["kf"]:
                        kf_events.add(e["of"])
                        kf_events.add(e["i"])
            fails = [f for f in m.fails() if f[0] not in ("DRIFT", "BEYOND")]
            bad = []
            for f in fails:
                if f[2] in kf_events or f[1].endswith("_foreign_layout"):
                    res["known"].append((cs["name"], f[0], f[1]))
                else:
                    bad.append(f)
            if bad:
                os.makedirs(common.REPLAY_DIR, exist_ok=True)
                base = os.path.join(common.REPLAY_DIR, "C19-%s-%s" % (name, cs["name"]))
                shutil.copy(trace, base + ".ndjson")
                with open(base + ".tla", "w") as fh:
                    fh.write(render_scenario_tla(cs))
                res["fails"].append((cs["name"], bad[:20], base + ".ndjson"))
    except tlc.TLCError as ex:
        res["machinery"] = str(ex)[-1500:]
    except Exception:
        res["machinery"] = traceback.format_exc()[-1500:]
    finally:
        shutil.rmtree(wd, ignore_errors=True)
        res["wall"] = time.time() - t0
    return res


def check_c19(prop, tier, seed):
    v = Verdict(prop)
    t0 = time.time()
    jobs = [dict(name=n, specs=sps, depth=(5 if tier == "quick" else 6) if len(sps) == 2 else 5,
                 # (the monitor keeps every environment of a log: cost grows with the square of their number)
                 max_schedules=((400 if tier == "quick" else 1200) if not n.startswith("large_")
                                else (30 if tier == "quick" else 300))) for n, sps in pairs(tier)]
    with mp.get_context("fork").Pool(len(jobs)) as pool:
        results = pool.map(run_pair, jobs, chunksize=1)
    kfs = {k["signature"]: k for k in common.open_findings(prop)}
    states = transitions = events = scheds = 0
    known = collections.Counter()
    per = []
    for r in results:
        if r["machinery"]:
            v.machinery.append("%s: %s" % (r["name"], r["machinery"][-600:]))
            continue
        states += r["states"]
        transitions += r["transitions"]
        events += r["events"]
        scheds += r["schedules"]
        per.append(dict(pair=r["name"], schedules=r["schedules"], recorded_calls=r["events"], spec_states=r["states"],
                        known_finding_events=len(r["known"]), wall_s=round(r["wall"], 1)))
        for k in r["known"]:
            known[r["name"]] += 1
        for (scn, bad, rp) in r["fails"]:
            f = bad[0]
            clause = f[1] if f[0] == "C19" else "behaves_as_if_alone (%s.%s)" % (f[0], f[1])
            v.violation("C19: %s: %s fails at recorded call %d of scenario %s (%d failing calls) in a schedule where "
                        "every acting environment has the most recently built layout" % (r["name"], clause, f[2], scn,
                                                                                        len(bad)), rp)
    if known:
        if "KF_ForeignLayout" in kfs:
            v.known.append("%s [seen in schedules of: %s]" % (kfs["KF_ForeignLayout"]["what"],
                                                              ", ".join("%s (%d calls)" % kv for kv in known.items())))
        else:
            v.violation("C19: environments interfere when an environment acts while another layout was built last "
                        "(%s)" % dict(known), "schedules")
    cov = dict(states=states, transitions=transitions, traces_validated_against_impl=scheds, recorded_calls=events,
               evaluations=scheds, distinct_nontrivial=scheds, exhaustive=(tier == "thorough"),
               rule="for each pair / triple of scenarios (same scenario; same layout, other content; different sizes; "
                    "same sizes, other names) TLC enumerates every interleaving of create / reset / step of the "
                    "environments up to the depth bound (NASimMulti, frame property checked); each schedule is executed "
                    "on the real implementation; after every call the tensors, last observations and API decodings of "
                    "all other live environments are compared with before (C19 clauses) and every call is validated by "
                    "the single-environment monitor of its own scenario with the same draws ('as if alone'); "
                    "distinct_nontrivial = schedules executed",
               samples=[per[0]] if per else [dict(note="none")], per_pair=per,
               known_findings_matched=sum(known.values()))
    common.write_evidence(prop, tier, seed, "model_checking", cov, time.time() - t0, len(v.violations))
    return v.finish()
