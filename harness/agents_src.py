"""The repository's own drivers as trace sources: nasim.agents.bruteforce_agent.run_bruteforce_agent (what the
repository's test-suite runs on every benchmark) and nasim.agents.random_agent.run_random_agent are run, unmodified,
against a recording proxy of a real NASimEnv.  Every reset() / step() they make becomes one event of the log the
monitor (spec/NASimTrace.tla) validates; the draws are numpy's own (record mode: logged, not scripted)."""
import numpy as np


class StopAgent(Exception):
    pass


def describe(arg):
    if isinstance(arg, (int, np.integer)) and not isinstance(arg, bool):
        return dict(enc="npint" if isinstance(arg, np.integer) else "int", idx=int(arg))
    if isinstance(arg, np.ndarray) and arg.ndim == 0:
        return dict(enc="np0d", idx=int(arg))
    if isinstance(arg, (list, tuple, np.ndarray)):
        enc = "list" if isinstance(arg, list) else "tuple" if isinstance(arg, tuple) else "ndarray"
        return dict(enc=enc, vec=[int(x) for x in arg])
    raise TypeError("agent passed an action of type %s" % type(arg).__name__)


class RecEnv:
    """what the agents see: the real environment, with reset / step going through the recorder"""

    def __init__(self, rec, eid, cap):
        self.__dict__.update(_rec=rec, _eid=eid, _cap=cap, _n=0)

    def __getattr__(self, name):
        return getattr(self._rec.envs[self._eid], name)

    def reset(self, **kw):
        self._rec.reset(self._eid, seed=kw.get("seed"))
        if self._rec.last_exc is not None:
            raise self._rec.last_exc
        return self._rec.last_ret

    def step(self, action):
        if self._n >= self._cap:
            raise StopAgent()
        self.__dict__["_n"] = self._n + 1
        self._rec.step_raw(self._eid, action, describe(action), None)
        if self._rec.last_exc is not None:
            raise self._rec.last_exc
        return self._rec.last_ret


def drive_agents(scn, rec, modes, seed, cap, agents=("bruteforce", "random")):
    """one environment per (agent, mode); returns the number of agent runs that finished by themselves"""
    from nasim.agents.bruteforce_agent import run_bruteforce_agent
    from nasim.agents.random_agent import run_random_agent
    np.random.seed(seed % (2 ** 31))
    finished, eid = 0, 0
    for ag in agents:
        for (fo, fa, f1) in modes:
            eid += 1
            rec.create(eid, scn, fo, fa, f1)
            rec.envs[eid].action_space.seed(seed + eid)
            proxy = RecEnv(rec, eid, cap)
            try:
                if ag == "bruteforce":
                    steps, total, done = run_bruteforce_agent(proxy, verbose=False)
                else:
                    steps, total, done = run_random_agent(proxy, step_limit=cap, verbose=False)
                finished += 1
                env = rec.envs[eid]
                rec.goal(eid, None)
            except StopAgent:
                pass
    return dict(finished=finished, envs=eid)
