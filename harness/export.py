"""Canonical scenario description (cs) and its rendering as the TLA+ module Scenario.tla.

A `cs` is a plain dict holding the scenario the way the specification sees it (names,
milli-unit numbers, ppm probabilities).  It is produced either from a Scenario object's
*definition data* (scenario_dict + Host objects; never through Scenario's convenience
properties that the implementation itself uses for its dynamics), or from an independent
reading of a YAML file (harness/yamlread.py).
"""
import math

NONE = "<none>"


def milli(x):
    return int(round(float(x) * 1000))


def ppm(x):
    return int(round(float(x) * 1000000))


def ppm_recorded(u):
    """a draw made by numpy's own generator (record mode), in ppm, rounded UP with exact rational arithmetic: for a
    probability of P ppm, `u <= P / 10^6` holds exactly when the logged integer is <= P, so rounding can never put a
    recorded draw on the other side of a probability"""
    from fractions import Fraction
    x = Fraction(float(u)) * 1000000
    return int(-((-x.numerator) // x.denominator))


def in_numeric_domain(x):
    """|x| <= 1000 with <= 3 decimals: float32 storage cannot move the milli-rounded value"""
    x = float(x)
    return abs(x) <= 1000 and abs(x * 1000 - round(x * 1000)) < 1e-6


def cs_from_scenario(scn, fw=None, hdeny=None):
    """Build cs from a nasim Scenario object (definition data only)."""
    d = scn.scenario_dict
    hosts = d["host"]
    order = [list(a) for a in hosts.keys()]
    os_l = list(d["os"])
    srv_l = list(d["services"])
    proc_l = list(d["processes"])
    cs = dict(
        name=str(scn.name),
        subnets=[int(x) for x in d["subnets"]],
        topology=[[int(c) for c in row] for row in d["topology"]],
        hosts=order,
        os=os_l, services=srv_l, processes=proc_l,
        host_os={}, host_srv={}, host_proc={}, val={}, dval={},
        sens={tuple(a): milli(v) for a, v in d["sensitive_hosts"].items()},
        fw={}, hdeny={}, exploits=[], privescs=[],
        scan_cost=dict(service_scan=milli(d["service_scan_cost"]),
                       os_scan=milli(d["os_scan_cost"]),
                       subnet_scan=milli(d["subnet_scan_cost"]),
                       process_scan=milli(d["process_scan_cost"])),
        step_limit=d.get("step_limit", None),
    )
    b = d.get("address_space_bounds", None)
    if b is None:
        b = (len(cs["subnets"]), max(cs["subnets"]))
    cs["bounds"] = [int(b[0]), int(b[1])]
    for addr, h in hosts.items():
        a = tuple(addr)
        cs["host_os"][a] = [k for k, v in h.os.items() if v]
        cs["host_srv"][a] = [k for k, v in h.services.items() if v]
        cs["host_proc"][a] = [k for k, v in h.processes.items() if v]
        cs["val"][a] = milli(h.value)
        cs["dval"][a] = milli(h.discovery_value)
        cs["hdeny"][a] = {}
        for src, srvs in h.firewall.items():
            if isinstance(src, tuple):      # (string keys: see DESIGN D2; YAML callers pass hdeny)
                cs["hdeny"][a][src] = list(srvs)
    for k, v in d["firewall"].items():
        cs["fw"][tuple(k)] = sorted(str(s) for s in v)
    for n, e in d["exploits"].items():
        cs["exploits"].append(dict(name=str(n), srv=str(e["service"]),
                                   os=NONE if e["os"] is None else str(e["os"]),
                                   prob=ppm(e["prob"]), cost=milli(e["cost"]),
                                   access=int(e["access"])))
    for n, e in d["privilege_escalation"].items():
        cs["privescs"].append(dict(name=str(n), proc=str(e["process"]),
                                   os=NONE if e["os"] is None else str(e["os"]),
                                   prob=ppm(e["prob"]), cost=milli(e["cost"]),
                                   access=int(e["access"])))
    if fw is not None:
        cs["fw"] = fw
    if hdeny is not None:
        cs["hdeny"] = hdeny
    return cs


def numeric_ok(cs):
    xs = list(cs["val"].values()) + list(cs["dval"].values()) + list(cs["scan_cost"].values())
    xs += [e["cost"] for e in cs["exploits"] + cs["privescs"]]
    return all(abs(x) <= 1000000 for x in xs)


# ---------------------------------------------------------------------------------------
# TLA+ rendering

def tstr(s):
    return '"' + str(s).replace("\\", "\\\\").replace('"', '\\"') + '"'


def tint(i):
    i = int(i)
    return str(i) if i >= 0 else "(%d)" % i


def taddr(a):
    return "<<%d, %d>>" % (int(a[0]), int(a[1]))


def tset(xs):
    return "{" + ", ".join(xs) + "}"


def tseq(xs):
    return "<<" + ", ".join(xs) + ">>"


def tfun(pairs):
    pairs = list(pairs)
    if not pairs:
        return "<<>>"
    return "(" + " @@ ".join("%s :> %s" % (k, v) for k, v in pairs) + ")"


def render_action(a):
    return ("[kind |-> %s, name |-> %s, target |-> %s, cost |-> %s, prob |-> %s, req |-> %d, "
            "srv |-> %s, proc |-> %s, os |-> %s, access |-> %d]" % (
                tstr(a["kind"]), tstr(a["name"]), taddr(a["target"]), tint(a["cost"]), tint(a["prob"]),
                a["req"], tstr(a["srv"]), tstr(a["proc"]), tstr(a["os"]), a["access"]))


def render_scenario_tla(cs, module="Scenario"):
    hosts = [tuple(h) for h in cs["hosts"]]
    L = []
    A = L.append
    A("---- MODULE %s ----" % module)
    A("\\* generated by harness/export.py from scenario %s -- do not edit" % tstr(cs.get("name", "?")))
    A("EXTENDS Integers, Sequences, TLC")
    A("ScnName == %s" % tstr(cs.get("name", "?")))
    A("NSub == %d" % len(cs["subnets"]))
    A("SubSize == %s" % tseq(tint(x) for x in cs["subnets"]))
    A("MaxSubSize == %d" % max(cs["subnets"]))
    A("Topo == %s" % tseq(tseq(tint(c) for c in row) for row in cs["topology"]))
    A("HostOrder == %s" % tseq(taddr(h) for h in hosts))
    A("OSs == %s" % tseq(tstr(x) for x in cs["os"]))
    A("Srvs == %s" % tseq(tstr(x) for x in cs["services"]))
    A("Procs == %s" % tseq(tstr(x) for x in cs["processes"]))
    A("HostOS == %s" % tfun((taddr(h), tset(tstr(x) for x in cs["host_os"][h])) for h in hosts))
    A("HostSrv == %s" % tfun((taddr(h), tset(tstr(x) for x in cs["host_srv"][h])) for h in hosts))
    A("HostProc == %s" % tfun((taddr(h), tset(tstr(x) for x in cs["host_proc"][h])) for h in hosts))
    A("Val == %s" % tfun((taddr(h), tint(cs["val"][h])) for h in hosts))
    A("DVal == %s" % tfun((taddr(h), tint(cs["dval"][h])) for h in hosts))
    A("Sens == %s" % tset(taddr(h) for h in cs["sens"].keys()))
    A("SensVal == %s" % tfun((taddr(h), tint(v)) for h, v in cs["sens"].items()))
    A("FW == %s" % tfun((taddr(k), tset(tstr(x) for x in v)) for k, v in cs["fw"].items()))
    A("HDeny == %s" % tfun(
        (taddr(h), tfun((taddr(s), tset(tstr(x) for x in v)) for s, v in cs["hdeny"].get(h, {}).items()))
        for h in hosts))
    A("Exploits == %s" % tseq(
        "[name |-> %s, srv |-> %s, os |-> %s, prob |-> %s, cost |-> %s, access |-> %d]" % (
            tstr(e["name"]), tstr(e["srv"]), tstr(e["os"]), tint(e["prob"]), tint(e["cost"]), e["access"])
        for e in cs["exploits"]))
    A("Privescs == %s" % tseq(
        "[name |-> %s, proc |-> %s, os |-> %s, prob |-> %s, cost |-> %s, access |-> %d]" % (
            tstr(e["name"]), tstr(e["proc"]), tstr(e["os"]), tint(e["prob"]), tint(e["cost"]), e["access"])
        for e in cs["privescs"]))
    sc = cs["scan_cost"]
    A("ScanCost == [service_scan |-> %s, os_scan |-> %s, subnet_scan |-> %s, process_scan |-> %s]" % (
        tint(sc["service_scan"]), tint(sc["os_scan"]), tint(sc["subnet_scan"]), tint(sc["process_scan"])))
    A("StepLimit == %s" % ("(-1)" if cs["step_limit"] is None else tint(cs["step_limit"])))
    A("Bounds == <<%d, %d>>" % tuple(cs["bounds"]))
    A("ExtraActions == %s" % tseq(render_action(a) for a in cs.get("extra_actions", [])))
    A("AdvUB == %s" % tint(cs.get("adv_ub", 0)))
    A("AdvHops == %s" % tint(cs.get("adv_hops", 0)))
    A("====")
    return "\n".join(L) + "\n"
