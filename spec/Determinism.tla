----------------------------- MODULE Determinism ----------------------------
(***************************************************************************)
(* C14: a memo machine.  Every keyed computation (generation of a scenario *)
(* for given parameters and seed; a seeded trajectory of a scenario under  *)
(* a fixed action script) is run several times - twice in one process, in  *)
(* other processes, under other values of PYTHONHASHSEED - and reports a   *)
(* canonical fingerprint of its result.  Run(key, fp) is enabled only if   *)
(* key is new or was recorded with the same fingerprint; the monitor form  *)
(* below prints every run that the machine would refuse.                   *)
(* DET_FILE: one JSON object per line [id, key, fp, where].                *)
(***************************************************************************)
EXTENDS Integers, Sequences, FiniteSets, TLC, Json, IOUtils, TLCExt

Lines == ndJsonDeserialize(IOEnv.DET_FILE)
NL == Len(Lines)
VARIABLES l, memo
vars == <<l, memo>>

Enabled(key, fp) == key \notin DOMAIN memo \/ memo[key].fp = fp

Init == l = 1 /\ memo = <<>>
Run ==
    /\ l <= NL
    /\ LET ln == Lines[l] IN
       /\ IF Enabled(ln.key, ln.fp) THEN TRUE
          ELSE PrintT(<<"FAIL", "C14", "same_key_same_fingerprint", ln.id, memo[ln.key].id>>)
       /\ memo' = IF ln.key \in DOMAIN memo THEN memo
                  ELSE [k \in DOMAIN memo \cup {ln.key} |-> IF k = ln.key THEN [fp |-> ln.fp, id |-> ln.id] ELSE memo[k]]
    /\ l' = l + 1
Spec == Init /\ [][Run]_vars

Accepted ==
    /\ PrintT(<<"CONSUMED", TLCGet("stats").diameter - 1, NL>>)
    /\ TLCGet("stats").diameter - 1 = NL
=============================================================================
