------------------------------ MODULE Clauses ------------------------------
(***************************************************************************)
(* The listed properties C01-C08, C13 as formulas over ONE executed         *)
(* action, written from the property statements and NOT in terms of Trans. *)
(*                                                                         *)
(* The same formulas are used twice:                                       *)
(*  - NASimEnv.tla applies them to every transition the specification      *)
(*    generates (so TLC shows that the reference model itself satisfies    *)
(*    the properties - the "design" half), and                             *)
(*  - NASimTrace.tla applies them to every call recorded from the real     *)
(*    implementation (the "code follows it" half).                         *)
(*                                                                         *)
(* An executed action is described by a record E:                          *)
(*   ev      "step" | "genstep"                                            *)
(*   a       action record (NASimCore!Act)                                 *)
(*   luck    BOOLEAN  - the uniform draw offered was <= a.prob             *)
(*   ndraw   number of draws the call consumed                             *)
(*   blind   the draw could not be intercepted (luck is what was observed) *)
(*   pre, post   attack states before / after                              *)
(*   res     [success, value, disc, newly, flags]                          *)
(*   reward, term, trunc, stepsB, stepsA                                   *)
(*   fo      BOOLEAN - fully observable mode                               *)
(*   obs     [Hosts -> row]   host rows of the returned observation        *)
(*   aux     row              auxiliary row of the observation             *)
(*   postRow [Hosts -> row]   raw rows of the resulting state              *)
(* Clause results are triples <<property id, clause name, holds>>.         *)
(***************************************************************************)
EXTENDS NASimObs

Effective(E) == E.res.success \/ E.post # E.pre

Tgt(E) == E.a.target

SumVal(S) == FoldSet(LAMBDA h, acc : acc + Val[h], 0, S)

---------------------------------------------------------------------------
C01(E) ==
  LET a == E.a  t == a.target IN
  << <<"C01", "change_needs_applicable_action",
       \A h \in Hosts :
          (E.post[h].comp # E.pre[h].comp \/ E.post[h].acc # E.pre[h].acc)
             => /\ a.kind \in {"exploit", "privesc"}
                /\ t = h
                /\ HostPre(E.pre, a)>>,
     <<"C01", "sufficient_when_pre_and_luck",
       (a.kind \in {"exploit", "privesc"} /\ AllPre(E.pre, a) /\ E.luck)
          => /\ E.res.success
             /\ E.post[t].comp
             /\ E.post[t].acc = MaxI(E.pre[t].acc, a.access)>>,
     <<"C01", "scan_noop_frame",
       a.kind \in ScanKinds \cup {"noop"}
          => \A h \in Hosts : /\ E.post[h].comp = E.pre[h].comp
                              /\ E.post[h].acc = E.pre[h].acc>> >>

C02(E) ==
  LET a == E.a  t == a.target IN
  << <<"C02", "undiscovered_or_unreachable_fails_unchanged",
       (a.kind # "noop" /\ ~(E.pre[t].reach /\ E.pre[t].disc))
          => ~E.res.success /\ E.post = E.pre>>,
     <<"C02", "remote_needs_pivot_with_access",
       (Remote(a) /\ ~Public(Sub(t)) /\ Effective(E))
          => \E src \in Hosts :
                /\ E.pre[src].comp
                /\ E.pre[src].acc >= a.req
                /\ IF a.kind = "exploit"
                      THEN SubnetPermits(Sub(src), Sub(t), a.srv)
                      ELSE Connected(Sub(src), Sub(t))>>,
     <<"C02", "exploit_needs_permitted_traffic",
       (a.kind = "exploit" /\ Effective(E))
          => \/ Public(Sub(t)) /\ SubnetPermits(0, Sub(t), a.srv)
             \/ \E src \in Hosts :
                   /\ E.pre[src].comp
                   /\ SubnetPermits(Sub(src), Sub(t), a.srv)
                   /\ a.srv \notin DenyOf(t, src)>>,
     <<"C02", "onhost_needs_access",
       (a.kind \in OnHostKinds /\ Effective(E))
          => E.pre[t].comp /\ E.pre[t].acc >= a.req>> >>

ReachInv(st) ==
    \A h \in Hosts :
       st[h].reach <=> (\/ Public(Sub(h))
                        \/ \E g \in Hosts : st[g].comp /\ Connected(Sub(g), Sub(h)))

ChainInv(st) == \A h \in Hosts : (st[h].comp => st[h].disc) /\ (st[h].disc => st[h].reach)

C03(E) ==
  LET a == E.a  t == a.target
      conn == {h \in Hosts : Connected(Sub(t), Sub(h))} IN
  << <<"C03", "reach_iff_public_or_adjacent_compromise", ReachInv(E.post)>>,
     <<"C03", "comp_disc_reach_chain", ChainInv(E.post)>>,
     <<"C03", "disc_changes_only_by_successful_scan_on_compromised",
       (\E h \in Hosts : E.post[h].disc # E.pre[h].disc)
          => a.kind = "subnet_scan" /\ E.res.success /\ E.pre[t].comp>>,
     <<"C03", "scan_discovers_exactly_connected",
       (a.kind = "subnet_scan" /\ E.res.success)
          => \A h \in Hosts : E.post[h].disc <=> (E.pre[h].disc \/ h \in conn)>>,
     <<"C03", "info_discovered_sets",
       IF a.kind = "subnet_scan" /\ E.res.success
         THEN E.res.disc = conn /\ E.res.newly = {h \in conn : ~E.pre[h].disc}
         ELSE E.res.newly = {}>> >>

C04(E) ==
  << <<"C04", "monotone_in_episode", StateLeq(E.pre, E.post)>> >>

C05(E) ==
  LET a == E.a
      rooted == {h \in Hosts : E.pre[h].acc # 2 /\ E.post[h].acc = 2}
      found == {h \in Hosts : ~E.pre[h].disc /\ E.post[h].disc} IN
  << <<"C05", "reward_is_value_minus_cost", E.reward = E.res.value - a.cost>>,
     <<"C05", "value_is_first_root_plus_new_discoveries",
       E.res.value = SumVal(rooted) + SumDVal(found)>>,
     <<"C05", "failure_gains_nothing", ~E.res.success => E.res.value = 0>>,
     <<"C05", "noop_is_free", a.kind = "noop" => E.reward = 0>> >>

C06(E) ==
  << <<"C06", "terminated_iff_goal", E.term <=> Goal(E.post)>>,
     <<"C06", "truncated_iff_limit_reached",
       E.ev = "step" => (E.trunc <=> (StepLimit # NoLimit /\ E.stepsA >= StepLimit))>>,
     <<"C06", "step_counts_one", E.ev = "step" => E.stepsA = E.stepsB + 1>>,
     <<"C06", "genstep_does_not_count", E.ev = "genstep" => E.stepsA = E.stepsB>> >>

C07(E) ==
  LET a == E.a  t == a.target
      pre == AllPre(E.pre, a)
      draws == ~NoDraw(E.pre, a) IN
  << <<"C07", "success_iff_luck_when_pre",
       (pre /\ draws) => (E.res.success <=> E.luck)>>,
     <<"C07", "unlucky_changes_nothing_and_is_undefined_error",
       (pre /\ draws /\ ~E.luck)
          => E.post = E.pre /\ E.res.value = 0 /\ E.res.flags = {"undef"}>>,
     <<"C07", "reexploit_never_unlucky",
       (a.kind = "exploit" /\ E.pre[t].comp /\ pre) => E.res.success>>,
     <<"C07", "pre_failed_changes_and_gains_nothing",
       (~pre) => E.post = E.pre /\ E.res.value = 0>>,
     <<"C07", "no_flag_on_success_and_at_most_one",
       (E.res.success => E.res.flags = {}) /\ Cardinality(E.res.flags) <= 1>>,
     <<"C07", "one_draw_when_pre_at_most_one_always",
       E.blind \/ (((pre /\ draws) => E.ndraw = 1) /\ E.ndraw <= 1)>> >>

---------------------------------------------------------------------------
(* C08: observations                                                       *)

NZCols(row) == {c \in 1..RowLen : row[c] # 0}
NZRows(E) == {h \in Hosts : NZCols(E.obs[h]) # {}}

C08(E) ==
  LET a == E.a  t == a.target
      found == {h \in Hosts : Connected(Sub(t), Sub(h))}
      okRows == IF a.kind = "noop" \/ ~E.res.success THEN {}
                ELSE IF a.kind = "subnet_scan" THEN {t} \cup found ELSE {t}
      cols(h) == IF h = t THEN TargetCols(a.kind)
                 ELSE FoundCols(~E.pre[h].disc) IN
  << <<"C08", "truthful",
       \A h \in NZRows(E) : \A c \in NZCols(E.obs[h]) : E.obs[h][c] = E.postRow[h][c]>>,
     <<"C08", "rows_entitled", ~E.fo => NZRows(E) \subseteq okRows>>,
     <<"C08", "columns_entitled",
       ~E.fo => \A h \in NZRows(E) \cap okRows : NZCols(E.obs[h]) \subseteq cols(h)>>,
     <<"C08", "success_reveals_in_full",
       ~E.fo => \A h \in okRows : \A c \in cols(h) : E.obs[h][c] = E.postRow[h][c]>>,
     <<"C08", "failure_and_noop_reveal_nothing",
       (~E.fo /\ (a.kind = "noop" \/ ~E.res.success)) => NZRows(E) = {}>>,
     <<"C08", "fully_observable_rows_equal_state",
       E.fo => \A h \in Hosts : E.obs[h] = E.postRow[h]>>,
     <<"C08", "aux_row_is_flags", E.aux = AuxRow(E.res)>>,
     \* C09: an observation row uses the layout of a state row - whatever it shows sits in the column
     \* that holds the same feature of the resulting state
     <<"C09", "observation_rows_laid_out_as_state_rows",
       \A h \in NZRows(E) : \A c \in NZCols(E.obs[h]) : E.obs[h][c] = E.postRow[h][c]>> >>

---------------------------------------------------------------------------
(* Agreement with the reference model: informative only (DRIFT), never a   *)
(* verdict on a property                                                   *)

Drift(E) ==
  LET x == Trans(E.pre, E.a, E.luck) IN
  << <<"DRIFT", "refmodel_state", E.post = x.st>>,
     <<"DRIFT", "refmodel_result",
       /\ E.res.success = x.success /\ E.res.value = x.value
       /\ E.res.disc = x.disc /\ E.res.newly = x.newly>>,
     <<"DRIFT", "refmodel_flags", E.res.flags = x.flags>>,
     <<"DRIFT", "refmodel_draws", E.ndraw = x.ndraw>>,
     <<"DRIFT", "refmodel_obs",
       \A h \in Hosts : E.obs[h] = ExpObsRow(x.st, E.a, x, E.fo, h)>> >>

StepClauses(E) ==
    C01(E) \o C02(E) \o C03(E) \o C04(E) \o C05(E) \o C06(E) \o C07(E) \o C08(E)

Failed(cs) == {<<cs[i][1], cs[i][2]>> : i \in {j \in 1..Len(cs) : ~cs[j][3]}}

=============================================================================
