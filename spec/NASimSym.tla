------------------------------ MODULE NASimSym ------------------------------
(***************************************************************************)
(* Symbolic-scenario fragment of the reference semantics for Apalache:     *)
(* the topology, the placement of hosts and the outcome of every           *)
(* firewall / pivot / configuration test are SYMBOLIC (constrained only by *)
(* ConstInit resp. left nondeterministic), so the obligations below hold   *)
(* for EVERY scenario with at most 4 subnets x 2 hosts, not for one.       *)
(*                                                                         *)
(*   Init => IndInv                        (length 0)                      *)
(*   IndInv /\ Next => IndInv'             (length 1, --init=IndInit)      *)
(*   IndInv /\ Next => Monotone            (action invariant, C04)         *)
(*                                                                         *)
(* IndInv = TypeOK /\ ReachInv /\ ChainInv  (C03).  The transition         *)
(* relation abstracts NASimCore!Trans: whenever Trans changes the state it *)
(* does so by one of the three effects below, under the preconditions that *)
(* matter for the invariants (target reachable and discovered; on-host     *)
(* actions on compromised hosts).  Design level only: nothing here speaks  *)
(* about the code.                                                         *)
(***************************************************************************)
EXTENDS Integers, FiniteSets

CONSTANTS
    \* @type: Set(<<Int, Int>>);
    Conn,
    \* @type: Set(<<Int, Int>>);
    HostSet

VARIABLES
    \* @type: <<Int, Int>> -> Bool;
    comp,
    \* @type: <<Int, Int>> -> Int;
    acc,
    \* @type: <<Int, Int>> -> Bool;
    disc,
    \* @type: <<Int, Int>> -> Bool;
    reach

Nodes == 0..4
AllHosts == (1..4) \X (0..1)

ConstInit ==
    /\ Conn \in SUBSET (Nodes \X Nodes)
    /\ \A a \in Nodes : <<a, a>> \in Conn
    /\ \A a \in Nodes, b \in Nodes : <<a, b>> \in Conn => <<b, a>> \in Conn
    /\ HostSet \in SUBSET AllHosts
    /\ HostSet # {}

Connected(a, b) == <<a, b>> \in Conn
Public(s) == Connected(s, 0)

TypeOK ==
    /\ comp \in [HostSet -> BOOLEAN]
    /\ acc \in [HostSet -> 0..2]
    /\ disc \in [HostSet -> BOOLEAN]
    /\ reach \in [HostSet -> BOOLEAN]

ReachInv ==
    \A h \in HostSet :
       reach[h] <=> (Public(h[1]) \/ \E g \in HostSet : comp[g] /\ Connected(g[1], h[1]))
ChainInv == \A h \in HostSet : (comp[h] => disc[h]) /\ (disc[h] => reach[h])
AccInv == \A h \in HostSet : comp[h] <=> acc[h] > 0

IndInv == TypeOK /\ ReachInv /\ ChainInv /\ AccInv

Init ==
    /\ comp = [h \in HostSet |-> FALSE]
    /\ acc = [h \in HostSet |-> 0]
    /\ disc = [h \in HostSet |-> Public(h[1])]
    /\ reach = [h \in HostSet |-> Public(h[1])]

\* used as --init for the inductive step: any state satisfying the invariant
IndInit == IndInv

Exploit(t, grant) ==
    /\ reach[t] /\ disc[t]
    /\ comp' = [comp EXCEPT ![t] = TRUE]
    /\ acc' = [acc EXCEPT ![t] = IF acc[t] >= grant THEN acc[t] ELSE grant]
    /\ reach' = [h \in HostSet |-> reach[h] \/ Connected(t[1], h[1])]
    /\ UNCHANGED disc

Privesc(t, grant) ==
    /\ reach[t] /\ disc[t] /\ comp[t]
    /\ acc' = [acc EXCEPT ![t] = IF acc[t] >= grant THEN acc[t] ELSE grant]
    /\ UNCHANGED <<comp, disc, reach>>

SubnetScan(t) ==
    /\ reach[t] /\ disc[t] /\ comp[t] /\ acc[t] >= 1
    /\ disc' = [h \in HostSet |-> disc[h] \/ Connected(t[1], h[1])]
    /\ UNCHANGED <<comp, acc, reach>>

Fails == UNCHANGED <<comp, acc, disc, reach>>

Next ==
    \/ \E t \in HostSet : \E g \in 1..2 : Exploit(t, g) \/ Privesc(t, g)
    \/ \E t \in HostSet : SubnetScan(t)
    \/ Fails

\* C04 at design level, for every scenario up to the bound
Monotone ==
    \A h \in HostSet :
       /\ comp[h] => comp'[h]
       /\ reach[h] => reach'[h]
       /\ disc[h] => disc'[h]
       /\ acc'[h] >= acc[h]
=============================================================================
