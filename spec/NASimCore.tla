----------------------------- MODULE NASimCore -----------------------------
(***************************************************************************)
(* Reference semantics of the NASim attack dynamics for ONE scenario.      *)
(*                                                                         *)
(* The scenario is a set of constant definitions in the generated module   *)
(* Scenario.tla (written per run by harness/export.py).  Everything here   *)
(* is a pure operator over those constants: network predicates, the flat   *)
(* action list, the parameter-vector decoding, the action mask, the goal   *)
(* test and the transition function Trans(st, a, luck).                    *)
(*                                                                         *)
(* Units: costs / values / rewards are milli-units (round(x*1000)),        *)
(* probabilities are ppm.                                                  *)
(*                                                                         *)
(* Attack state st : [Hosts -> [comp, reach, disc : BOOLEAN, acc : 0..2]]  *)
(***************************************************************************)
EXTENDS Scenario, Integers, Sequences, FiniteSets, FiniteSetsExt, TLC

NoName == "<none>"          \* "no service / process / OS named"
NoLimit == -1               \* StepLimit value meaning "no step limit"
One == 1000000              \* probability 1 in ppm

NHosts == Len(HostOrder)
Hosts == {HostOrder[i] : i \in 1..NHosts}
HostIdx(h) == CHOOSE i \in 1..NHosts : HostOrder[i] = h
Sub(h) == h[1]
Subnets == 0..(NSub - 1)

---------------------------------------------------------------------------
(* Network predicates                                                      *)

Connected(s1, s2) == Topo[s1 + 1][s2 + 1] = 1
Public(s) == Connected(s, 0)

FWAllow(s1, s2) == IF <<s1, s2>> \in DOMAIN FW THEN FW[<<s1, s2>>] ELSE {}

\* subnet firewall: traffic inside one subnet is always allowed, otherwise
\* the subnets must be connected and the rule in that direction must list
\* the service
SubnetPermits(s1, s2, srv) ==
    \/ s1 = s2
    \/ Connected(s1, s2) /\ srv \in FWAllow(s1, s2)

DenyOf(tgt, src) ==
    IF src \in DOMAIN HDeny[tgt] THEN HDeny[tgt][src] ELSE {}

\* host firewall of the target: a deny-list per source address
HostPermits(src, tgt, srv) == srv \notin DenyOf(tgt, src)

InitSt == [h \in Hosts |->
             [comp |-> FALSE, acc |-> 0,
              reach |-> Public(Sub(h)), disc |-> Public(Sub(h))]]

Goal(st) == \A h \in Sens : st[h].acc = 2

StateLeq(s, t) ==
    \A h \in Hosts : /\ s[h].comp => t[h].comp
                     /\ s[h].reach => t[h].reach
                     /\ s[h].disc => t[h].disc
                     /\ s[h].acc <= t[h].acc

---------------------------------------------------------------------------
(* Actions                                                                 *)

ScanKinds == {"service_scan", "os_scan", "subnet_scan", "process_scan"}
RemoteKinds == {"service_scan", "os_scan", "exploit"}
OnHostKinds == {"subnet_scan", "process_scan", "privesc"}
Kinds == ScanKinds \cup {"exploit", "privesc", "noop"}

Act(kind, name, t, cost, prob, req, srv, proc, os, access) ==
    [kind |-> kind, name |-> name, target |-> t, cost |-> cost, prob |-> prob,
     req |-> req, srv |-> srv, proc |-> proc, os |-> os, access |-> access]

ScanAct(kind, t) ==
    Act(kind, kind, t, ScanCost[kind], One, 1, NoName, NoName, NoName, 0)
ExploitAct(i, t) ==
    LET e == Exploits[i] IN
    Act("exploit", e.name, t, e.cost, e.prob, 1, e.srv, NoName, e.os, e.access)
PrivescAct(i, t) ==
    LET p == Privescs[i] IN
    Act("privesc", p.name, t, p.cost, p.prob, 1, NoName, p.proc, p.os, p.access)
NoopAct == Act("noop", "noop", <<1, 0>>, 0, One, 0, NoName, NoName, NoName, 0)

NExp == Len(Exploits)
NPriv == Len(Privescs)
PerHost == 4 + NExp + NPriv
NActions == NHosts * PerHost

\* the flat action list in implementation order, 1-based index k:
\* host-major; service, OS, subnet, process scan; exploits; escalations
FlatAt(k) ==
    LET hi == ((k - 1) \div PerHost) + 1
        o  == (k - 1) % PerHost
        t  == HostOrder[hi]
    IN CASE o = 0 -> ScanAct("service_scan", t)
         [] o = 1 -> ScanAct("os_scan", t)
         [] o = 2 -> ScanAct("subnet_scan", t)
         [] o = 3 -> ScanAct("process_scan", t)
         [] o >= 4 /\ o < 4 + NExp -> ExploitAct(o - 3, t)
         [] OTHER -> PrivescAct(o - 3 - NExp, t)

FlatSet == {FlatAt(k) : k \in 1..NActions}

\* parameter vector <<type, subnet, host, os, service, process>> (0-based
\* entries as the implementation receives them)
ParamNvec == <<6, NSub - 1, MaxSubSize, Len(OSs) + 1, Len(Srvs), Len(Procs)>>

FirstMatch(defs, P(_)) ==
    LET idx == {i \in 1..Len(defs) : P(defs[i])} IN
    IF idx = {} THEN 0 ELSE Min(idx)

DecodeParam(v) ==
    LET ty  == v[1]
        s   == v[2] + 1
        t   == <<s, v[3] % SubSize[s + 1]>>
        os  == IF v[4] = 0 THEN NoName ELSE OSs[v[4]]
    IN CASE ty = 2 -> ScanAct("service_scan", t)
         [] ty = 3 -> ScanAct("os_scan", t)
         [] ty = 4 -> ScanAct("subnet_scan", t)
         [] ty = 5 -> ScanAct("process_scan", t)
         [] ty = 0 ->
              LET srv == Srvs[v[5] + 1]
                  i == FirstMatch(Exploits, LAMBDA e : e.srv = srv /\ e.os = os)
              IN IF i = 0 THEN NoopAct ELSE ExploitAct(i, t)
         [] ty = 1 ->
              LET pr == Procs[v[6] + 1]
                  i == FirstMatch(Privescs, LAMBDA p : p.proc = pr /\ p.os = os)
              IN IF i = 0 THEN NoopAct ELSE PrivescAct(i, t)

PosIn(seq, x) == IF x = NoName THEN 0 ELSE CHOOSE i \in 1..Len(seq) : seq[i] = x

\* the vector that documents action a (used to drive parameterised spaces
\* along specification behaviours); Expressible(a) says that the vector
\* decodes back to a (it does not for the second of two definitions sharing
\* (service, OS), for no-ops and for custom action objects)
EncodeParam(a) ==
    LET ty == CASE a.kind = "exploit" -> 0 [] a.kind = "privesc" -> 1
                [] a.kind = "service_scan" -> 2 [] a.kind = "os_scan" -> 3
                [] a.kind = "subnet_scan" -> 4 [] OTHER -> 5
    IN <<ty, a.target[1] - 1, a.target[2], PosIn(OSs, a.os),
         IF a.srv = NoName THEN 0 ELSE PosIn(Srvs, a.srv) - 1,
         IF a.proc = NoName THEN 0 ELSE PosIn(Procs, a.proc) - 1>>
Expressible(a) == a.kind # "noop" /\ a.req = 1 /\ DecodeParam(EncodeParam(a)) = a

Mask(st) == [k \in 1..NActions |-> IF st[FlatAt(k).target].disc THEN 1 ELSE 0]

---------------------------------------------------------------------------
(* Preconditions                                                           *)

Remote(a) == a.kind \in RemoteKinds

\* attacker holds the required access on a compromised pivot whose subnet
\* is connected to the target's (exploit: whose rule towards the target's
\* subnet allows the service); free for public subnets
HasRemotePerm(st, a) ==
    \/ Public(Sub(a.target))
    \/ \E src \in Hosts :
          /\ st[src].comp
          /\ IF a.kind = "exploit"
                THEN SubnetPermits(Sub(src), Sub(a.target), a.srv)
                ELSE Connected(Sub(src), Sub(a.target))
          /\ st[src].acc >= a.req

\* attacker-controlled positions: the internet for a public subnet (subnet
\* rule <<0, s>>; the internet has no host address so no deny-list applies),
\* or a compromised host (subnet rule in that direction, same subnet free,
\* not denied for that source by the target's own host firewall)
TrafficPermitted(st, tgt, srv) ==
    \/ Public(Sub(tgt)) /\ SubnetPermits(0, Sub(tgt), srv)
    \/ \E src \in Hosts :
          /\ st[src].comp
          /\ SubnetPermits(Sub(src), Sub(tgt), srv)
          /\ HostPermits(src, tgt, srv)

OsOk(a, t) == a.os = NoName \/ a.os \in HostOS[t]

\* host-level preconditions of C01 (configuration part)
HostCfgPre(a) ==
    CASE a.kind = "exploit" -> a.srv \in HostSrv[a.target] /\ OsOk(a, a.target)
      [] a.kind = "privesc" -> (a.proc = NoName \/ a.proc \in HostProc[a.target])
                               /\ OsOk(a, a.target)
      [] OTHER -> TRUE

\* on-host actions need the target compromised with the required access
OnHostPre(st, a) == st[a.target].comp /\ st[a.target].acc >= a.req

\* full host-level precondition of the action
HostPre(st, a) ==
    CASE a.kind = "exploit" -> HostCfgPre(a)
      [] a.kind = "privesc" -> OnHostPre(st, a) /\ HostCfgPre(a)
      [] a.kind \in {"subnet_scan", "process_scan"} -> OnHostPre(st, a)
      [] OTHER -> TRUE

\* network-level preconditions of C02
NetPre(st, a) ==
    /\ a.kind # "noop" => st[a.target].reach /\ st[a.target].disc
    /\ Remote(a) => HasRemotePerm(st, a)
    /\ a.kind = "exploit" => TrafficPermitted(st, a.target, a.srv)

AllPre(st, a) == NetPre(st, a) /\ HostPre(st, a)

\* the draw is skipped for an exploit against an already compromised host
NoDraw(st, a) == a.kind = "noop" \/ (a.kind = "exploit" /\ st[a.target].comp)

\* which side of the draw is possible at all
FeasibleLuck(a, luck) == (luck \/ a.prob < One) /\ (~luck \/ a.prob > 0)

---------------------------------------------------------------------------
(* Transition function                                                     *)

Res(st, ok, val, d, n, fl, gate, nd) ==
    [st |-> st, success |-> ok, value |-> val, disc |-> d, newly |-> n,
     flags |-> fl, gate |-> gate, ndraw |-> nd]

Fail(st, fl, gate, nd) == Res(st, FALSE, 0, {}, {}, fl, gate, nd)

MaxI(a, b) == IF a >= b THEN a ELSE b

SumDVal(S) == FoldSet(LAMBDA h, acc : acc + DVal[h], 0, S)

GainAccess(st, a) ==
    LET t == a.target
        newacc == MaxI(st[t].acc, a.access)
        val == IF st[t].acc # 2 /\ newacc = 2 THEN Val[t] ELSE 0
    IN <<[st EXCEPT ![t].comp = TRUE, ![t].acc = newacc], val>>

OpenReach(st, t) ==
    [h \in Hosts |-> IF Connected(Sub(t), Sub(h))
                       THEN [st[h] EXCEPT !.reach = TRUE] ELSE st[h]]

\* luck = TRUE: the uniform draw is <= prob (the action does not fail by
\* chance); gates are listed in the order the implementation tests them,
\* the name of the deciding gate is part of the result
Trans(st, a, luck) ==
    LET t == a.target IN
    IF a.kind = "noop" THEN Res(st, TRUE, 0, {}, {}, {}, "noop", 0)
    ELSE IF ~(st[t].reach /\ st[t].disc)
      THEN Fail(st, {"conn"}, "not_reach_disc", 0)
    ELSE IF Remote(a) /\ ~HasRemotePerm(st, a)
      THEN Fail(st, {"perm"}, "no_pivot", 0)
    ELSE IF a.kind = "exploit" /\ ~TrafficPermitted(st, t, a.srv)
      THEN Fail(st, {"conn"}, "traffic_blocked", 0)
    ELSE IF a.kind = "privesc" /\ ~st[t].comp
      THEN Fail(st, {"conn"}, "privesc_uncompromised", 0)
    ELSE
      LET nd == IF NoDraw(st, a) THEN 0 ELSE 1 IN
      IF nd = 1 /\ ~luck THEN Fail(st, {"undef"}, "unlucky", 1)
      ELSE
        CASE a.kind = "subnet_scan" ->
               IF ~st[t].comp THEN Fail(st, {"conn"}, "sscan_uncompromised", nd)
               ELSE IF st[t].acc < a.req THEN Fail(st, {"perm"}, "sscan_no_access", nd)
               ELSE LET found == {h \in Hosts : Connected(Sub(t), Sub(h))}
                        newly == {h \in found : ~st[h].disc}
                        st1 == [h \in Hosts |-> IF h \in found
                                  THEN [st[h] EXCEPT !.disc = TRUE] ELSE st[h]]
                    IN Res(st1, TRUE, SumDVal(newly), found, newly, {}, "sscan_ok", nd)
          [] a.kind \in {"service_scan", "os_scan"} ->
               Res(st, TRUE, 0, {}, {}, {}, "scan_ok", nd)
          [] a.kind = "exploit" ->
               IF HostCfgPre(a)
                 THEN LET g == GainAccess(st, a)
                      IN Res(OpenReach(g[1], t), TRUE, g[2], {}, {}, {}, "exploit_ok", nd)
               ELSE IF ~OnHostPre(st, a)
                 THEN Fail(st, {"perm"}, "exploit_cfg_fail_perm", nd)
               ELSE Fail(st, {}, "exploit_cfg_fail", nd)
          [] a.kind = "process_scan" ->
               IF ~OnHostPre(st, a) THEN Fail(st, {"perm"}, "onhost_no_access", nd)
               ELSE Res(st, TRUE, 0, {}, {}, {}, "pscan_ok", nd)
          [] a.kind = "privesc" ->
               IF ~OnHostPre(st, a) THEN Fail(st, {"perm"}, "onhost_no_access", nd)
               ELSE IF HostCfgPre(a)
                 THEN LET g == GainAccess(st, a)
                      IN Res(g[1], TRUE, g[2], {}, {}, {}, "privesc_ok", nd)
               ELSE Fail(st, {}, "privesc_cfg_fail", nd)

\* Would action a, with a lucky draw, change the state?  (A closed form of Trans(st, a, TRUE).st # st that does
\* not build the next state; NASimEnv checks the equivalence on every transition it generates.)
WouldChange(st, a) ==
    LET t == a.target IN
    /\ a.kind \in {"exploit", "privesc", "subnet_scan"}
    /\ st[t].reach /\ st[t].disc
    /\ CASE a.kind = "exploit" ->
               /\ HasRemotePerm(st, a) /\ TrafficPermitted(st, t, a.srv) /\ HostCfgPre(a)
               /\ (~st[t].comp \/ st[t].acc < a.access
                   \/ \E h \in Hosts : Connected(Sub(t), Sub(h)) /\ ~st[h].reach)
         [] a.kind = "privesc" -> OnHostPre(st, a) /\ HostCfgPre(a) /\ st[t].acc < a.access
         [] OTHER -> OnHostPre(st, a) /\ \E h \in Hosts : Connected(Sub(t), Sub(h)) /\ ~st[h].disc

\* the gates whose outcome does not depend on the draw: everything decided
\* before the chance gate
PreDrawGates == {"noop", "not_reach_disc", "no_pivot", "traffic_blocked",
                 "privesc_uncompromised"}

=============================================================================
