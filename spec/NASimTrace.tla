---------------------------- MODULE NASimTrace -----------------------------
(***************************************************************************)
(* Trace monitor: validates an event log recorded from the real            *)
(* implementation (ndjson, one object per API call, see DESIGN appendix A) *)
(* against the specification of ONE scenario (Scenario.tla).               *)
(*                                                                         *)
(* It is a monitor, not a gate: the monitored state follows the            *)
(* implementation's logged raw tensors (decoded with NASimObs), and for    *)
(* every event the property clauses are evaluated; each failed clause is   *)
(* printed as  <<"FAIL", property, clause, event number>>  and the run     *)
(* continues, so the rest of the trace is still checked.                   *)
(* Acceptance of the run itself: every line consumed (postcondition).      *)
(***************************************************************************)
EXTENDS Clauses, Json, IOUtils, TLCExt

TraceLog == ndJsonDeserialize(IOEnv.TRACE_FILE)
N == Len(TraceLog)

VARIABLES l,         \* next line of TraceLog
          raw,       \* env id -> raw state tensor (sequence of rows) the env currently holds
          abs,       \* env id -> decoded attack state
          initRaw,   \* env id -> raw tensor right after construction
          steps,     \* env id -> step counter
          mode,      \* env id -> [fo, fa, f1]
          paidVal, paidDisc,   \* env id -> hosts paid in this episode (C05 history)
          prev,      \* summary of the previous genstep (C07 pair clause, C13 step = genstep)
          grp,       \* summary of the first call of the current lock-step group (C12)
          ndec,      \* env id -> number of parameter vectors decoded so far (C11)
          hist       \* coverage: <<kind, gate, luck>> -> count

vars == <<l, raw, abs, initRaw, steps, mode, paidVal, paidDisc, prev, grp, ndec, hist>>

HostIdxMap == [h \in Hosts |-> CHOOSE i \in 1..NHosts : HostOrder[i] = h]
Idx(h) == HostIdxMap[h]

Put(f, k, v) == [x \in (DOMAIN f) \cup {k} |-> IF x = k THEN v ELSE f[x]]
SeqSet(s) == {s[i] : i \in 1..Len(s)}
Bump(h, k) == IF k \in DOMAIN h THEN [h EXCEPT ![k] = @ + 1] ELSE Put(h, k, 1)

\* changes: sequence of <<0-based row index, row>>
ApplyRows(rows, changes) ==
    LET f == [i \in {changes[j][1] : j \in 1..Len(changes)} |->
                 (CHOOSE j \in 1..Len(changes) : changes[j][1] = i)] IN
    [r \in 1..Len(rows) |-> IF (r - 1) \in DOMAIN f THEN changes[f[r - 1]][2] ELSE rows[r]]

Decode(rows) == [h \in Hosts |-> DecodeStatus(rows[Idx(h)])]

RowsWellFormed(rows) ==
    /\ Len(rows) = NHosts
    /\ \A r \in 1..Len(rows) : Len(rows[r]) = RowLen /\ StatusWellFormed(rows[r])

\* reconstruct the host rows of an observation from its lossless encoding:
\* explicit rows are given, "same" rows are byte-equal to the resulting
\* state's row, every other row is all zero
ObsRowsOf(o, postRows) ==
    LET ex == [i \in {o.explicit[j][1] : j \in 1..Len(o.explicit)} |->
                  (CHOOSE j \in 1..Len(o.explicit) : o.explicit[j][1] = i)]
        same == SeqSet(o.same) IN
    [h \in Hosts |->
        LET r == Idx(h) - 1 IN
        IF r \in DOMAIN ex THEN o.explicit[ex[r]][2]
        ELSE IF r \in same THEN postRows[r + 1]
        ELSE ZeroRow]

FlagsOf(info) ==
    (IF info.conn THEN {"conn"} ELSE {}) \cup (IF info.perm THEN {"perm"} ELSE {})
    \cup (IF info.undef THEN {"undef"} ELSE {})

\* a vector of the documented parameterised space
InParamSpace(v) == Len(v) = 6 /\ \A i \in 1..6 : v[i] >= 0 /\ v[i] < ParamNvec[i]
\* C11 does not fix the ORDER of the flat action list, only its content and that every environment of a scenario
\* uses the same index -> action mapping.  An environment whose list is a rearrangement of the specification's
\* FlatAt logs the rearrangement (adv.perm[i] = specification index of the implementation's i-th action, proposed by
\* the harness from the actions' kind / name / target, verified here and in ActionsClauses); flat indices are read
\* through it.  On the pinned tree the order is FlatAt's and no perm is logged.
IdPerm == [i \in 1..NActions |-> i]
IsPerm(p) == Len(p) = NActions /\ {p[i] : i \in 1..Len(p)} = 1..NActions
PermOfCreate(ev) == IF "perm" \in DOMAIN ev.adv /\ IsPerm(ev.adv.perm) THEN ev.adv.perm ELSE IdPerm
PermOf(e) == IF e \in DOMAIN mode THEN mode[e].perm ELSE IdPerm
ActOfEv(x, e) ==
    CASE x.enc \in {"int", "npint", "np0d"} ->
           IF x.idx + 1 \in 1..NActions THEN FlatAt(PermOf(e)[x.idx + 1]) ELSE FlatAt(x.idx + 1)
      [] x.enc \in {"list", "tuple", "ndarray"} -> IF InParamSpace(x.vec) THEN DecodeParam(x.vec) ELSE NoopAct
      [] OTHER -> x.obj

Report(failed, i) == \A c \in failed : PrintT(<<"FAIL", c[1], c[2], i>>)

Ev == TraceLog[l]

\* an event whose arrays do not even have the scenario's dimensions cannot be decoded: it is reported
\* under C09 (row length) and skipped, so that the monitor never indexes outside a row
RowsOK(rs) == \A i \in 1..Len(rs) : Len(rs[i]) = RowLen
ChangesOK(cs) == \A i \in 1..Len(cs) : Len(cs[i][2]) = RowLen /\ cs[i][1] \in 0..(NHosts - 1)
ObsOK(o) ==
    /\ ~("malformed" \in DOMAIN o)
    /\ ChangesOK(o.explicit) /\ Len(o.aux) = RowLen
    /\ \A i \in 1..Len(o.same) : o.same[i] \in 0..(NHosts - 1)
Malformed(ev) ==
    CASE ev.ev = "create" -> ~(Len(ev.tensor) = NHosts /\ RowsOK(ev.tensor) /\ ObsOK(ev.obs))
      [] ev.ev \in {"reset", "step", "genstep"} ->
           ~(ChangesOK(ev.pre_rows) /\ ChangesOK(ev.post_rows) /\ ObsOK(ev.obs))
      [] ev.ev \in {"goal", "mask"} -> ~ChangesOK(ev.pre_rows)
      [] ev.ev = "readable" -> ~RowsOK(ev.rows)
      [] OTHER -> FALSE

---------------------------------------------------------------------------
Init ==
    /\ l = 1
    /\ raw = <<>> /\ abs = <<>> /\ initRaw = <<>> /\ steps = <<>> /\ mode = <<>>
    /\ paidVal = <<>> /\ paidDisc = <<>>
    /\ prev = <<>>
    /\ grp = [id |-> -1]
    /\ ndec = <<>>
    /\ hist = <<>>

\* ------------------------------------------------------------------ create
CreateClauses(ev, rows) ==
    LET o == ObsRowsOf(ev.obs, rows) IN
    << <<"C09", "row_length", \A r \in 1..Len(rows) : Len(rows[r]) = RowLen>>,
       <<"C09", "status_columns_wellformed", RowsWellFormed(rows)>>,
       <<"C09", "initial_tensor_decodes_to_scenario",
         /\ Len(rows) = NHosts
         /\ \A r \in 1..NHosts :
               Len(rows[r]) = RowLen => DecodeRow(rows[r]) = HostDef(InitSt, HostOrder[r])>>,
       <<"C09", "initial_tensor_equals_encoding",
         Len(rows) = NHosts /\ \A r \in 1..NHosts : rows[r] = EncodeRow(InitSt, HostOrder[r])>>,
       <<"C10", "dims_as_scenario",
         /\ ev.adv.state_dims = StateDims
         /\ ev.adv.obs_dims = ObsDims>>,
       <<"C10", "shape_as_advertised",
         ev.obs.shape = (IF ev.modes.f1 THEN <<(NHosts + 1) * RowLen>> ELSE ObsDims)
         /\ ev.adv.space_shape = ev.obs.shape>>,
       <<"C10", "space_bounds", ev.adv.low <= SpaceLow /\ ev.adv.high >= SpaceHigh>>,
       <<"C10", "dtype_float32", ev.obs.dtype = "float32" /\ ev.adv.space_dtype = "float32">>,
       <<"C10", "contains", ev.obs.in_space>>,
       <<"C11", "size_as_advertised", ev.adv.n_actions = NActions /\ ev.adv.scn_actions = NActions>>,
       <<"C11", "param_space_dimensions", (~ev.modes.fa) => ev.adv.nvec = ParamNvec>>,
       <<"C11", "flat_space_size", ev.modes.fa => ev.adv.space_n = NActions>>,
       <<"C11", "flat_list_is_a_rearrangement_of_the_scenarios_actions",
         "perm" \in DOMAIN ev.adv => IsPerm(ev.adv.perm)>>,
       \* (compared with one earlier environment: every earlier one was compared with its predecessors in turn)
       <<"C11", "same_index_mapping_for_every_environment",
         DOMAIN mode = {} \/ mode[CHOOSE e2 \in DOMAIN mode : TRUE].perm = PermOfCreate(ev)>>,
       <<"C08", "initial_observation",
         /\ \A h \in Hosts : o[h] = InitObsRow(InitSt, ev.modes.fo, h)
         /\ ev.obs.aux = ZeroRow>>,
       <<"BEYOND", "scenario_description_arithmetic",
         LET D == ev.adv.description IN
         /\ "hosts" \in DOMAIN D
         /\ D.subnets = NSub /\ D.hosts = NHosts /\ D.os = NOS /\ D.services = NSrv /\ D.processes = NProc
         /\ D.exploits = NExp /\ D.privescs = NPriv /\ D.actions = NActions /\ D.obs_dims = ObsDims
         /\ D.step_limit = StepLimit>> >>

Create ==
    /\ l <= N /\ Ev.ev = "create" /\ ~Malformed(Ev)
    /\ LET ev == Ev  e == ev.env  rows == ev.tensor IN
       /\ Report(Failed(CreateClauses(ev, rows)), ev.i)
       /\ raw' = Put(raw, e, rows)
       /\ initRaw' = Put(initRaw, e, rows)
       /\ abs' = Put(abs, e, IF RowsWellFormed(rows) THEN Decode(rows) ELSE InitSt)
       /\ steps' = Put(steps, e, 0)
       /\ mode' = Put(mode, e, [fo |-> ev.modes.fo, fa |-> ev.modes.fa, f1 |-> ev.modes.f1,
                               low |-> ev.adv.low, high |-> ev.adv.high, perm |-> PermOfCreate(ev)])
       /\ ndec' = Put(ndec, e, 0)
       /\ paidVal' = Put(paidVal, e, {})
       /\ paidDisc' = Put(paidDisc, e, {})
    /\ prev' = Put(prev, Ev.env, [valid |-> FALSE])
    /\ UNCHANGED <<grp, hist>>
    /\ l' = l + 1

\* ------------------------------------------------------------------- reset
ResetClauses(ev, rows, st) ==
    LET e == ev.env
        o == ObsRowsOf(ev.obs, rows) IN
    << <<"C04", "reset_restores_initial", st = InitSt /\ rows = initRaw[e]>>,
       <<"C04", "reset_zeroes_steps", ev.steps_after = 0>>,
       <<"C03", "reset_discovers_public_only",
         \A h \in Hosts : st[h].disc <=> Public(Sub(h))>>,
       <<"C03", "reach_iff_public_or_adjacent_compromise", ReachInv(st)>>,
       <<"C08", "initial_observation",
         /\ \A h \in Hosts : o[h] = InitObsRow(st, mode[e].fo, h)
         /\ ev.obs.aux = ZeroRow>>,
       <<"C10", "shape_as_advertised",
         ev.obs.shape = (IF mode[e].f1 THEN <<(NHosts + 1) * RowLen>> ELSE ObsDims)>>,
       <<"C10", "dtype_float32", ev.obs.dtype = "float32">>,
       <<"C10", "contains", ev.obs.in_space>>,
       <<"C10", "tuple_shapes", ev.arity = 2 /\ ev.info_is_dict>>,
       <<"C13", "state_not_modified_between_calls", Len(ev.pre_rows) = 0>> >>

ResetEv ==
    /\ l <= N /\ Ev.ev = "reset" /\ ~Malformed(Ev)
    /\ LET ev == Ev  e == ev.env
           pre == ApplyRows(raw[e], ev.pre_rows)
           rows == ApplyRows(pre, ev.post_rows)
           ok == RowsWellFormed(rows)
           st == IF ok THEN Decode(rows) ELSE abs[e] IN
       /\ Report(Failed(ResetClauses(ev, rows, st))
                 \cup (IF ok THEN {} ELSE {<<"C09", "status_columns_wellformed">>}), ev.i)
       /\ raw' = [raw EXCEPT ![e] = rows]
       /\ abs' = [abs EXCEPT ![e] = st]
       /\ steps' = [steps EXCEPT ![e] = ev.steps_after]
       /\ paidVal' = [paidVal EXCEPT ![e] = {}]
       /\ paidDisc' = [paidDisc EXCEPT ![e] = {}]
    /\ UNCHANGED <<initRaw, mode, prev, grp, ndec, hist>>
    /\ l' = l + 1

\* ---------------------------------------------------------- step / genstep
\* A draw the harness could not intercept (the dynamics drew from numpy's global generator through something other
\* than its uniform [0,1) family): the side of the draw is then what the call showed - except that a
\* probability-1 action is always lucky and a probability-0 action never - and the frequencies are tested at the
\* end of the log (FreqClauses).  Never the case on the pinned tree.
IsBlind(ev) == "blind" \in DOMAIN ev /\ ev.blind
LuckOfEv(ev, a) ==
    IF ~IsBlind(ev) THEN ev.u <= a.prob
    ELSE IF a.prob >= 1000000 THEN TRUE
    ELSE IF a.prob <= 0 THEN FALSE
    ELSE ev.info.success \/ Len(ev.post_rows) > 0

EOfEv(ev, a, preSt, postSt, postRows) ==
    [ev |-> ev.ev, a |-> a, luck |-> LuckOfEv(ev, a), ndraw |-> ev.ndraw, blind |-> IsBlind(ev),
     pre |-> preSt, post |-> postSt,
     res |-> [success |-> ev.info.success, value |-> ev.info.value,
              disc |-> SeqSet(ev.info.disc), newly |-> SeqSet(ev.info.newly),
              flags |-> FlagsOf(ev.info)],
     reward |-> ev.reward, term |-> ev.term,
     trunc |-> IF ev.ev = "step" THEN ev.trunc ELSE FALSE,
     stepsB |-> ev.steps_before, stepsA |-> ev.steps_after,
     fo |-> mode[ev.env].fo,
     obs |-> ObsRowsOf(ev.obs, postRows),
     aux |-> ev.obs.aux,
     postRow |-> [h \in Hosts |-> postRows[Idx(h)]]]

RawClauses(ev, preRows, postRows) ==
    LET e == ev.env IN
    << <<"C04", "config_columns_immutable",
         \A r \in 1..NHosts : \A c \in ConfigCols : postRows[r][c] = initRaw[e][r][c]>>,
       <<"C10", "shape_as_advertised",
         ev.obs.shape = (IF mode[e].f1 THEN <<(NHosts + 1) * RowLen>> ELSE ObsDims)>>,
       <<"C10", "dtype_float32", ev.obs.dtype = "float32">>,
       <<"C10", "contains", ev.obs.in_space>>,
       <<"C10", "entries_within_space_bounds",
         LET o == ObsRowsOf(ev.obs, postRows) IN
         \A r \in SeqSet(ev.obs.same) \cup {ev.obs.explicit[j][1] : j \in 1..Len(ev.obs.explicit)} :
            \A c \in 1..RowLen : LET x == o[HostOrder[r + 1]][c] IN mode[e].low <= x /\ x <= mode[e].high>>,
       <<"C10", "tuple_shapes",
         IF ev.ev = "step" THEN ev.arity = 5 /\ ev.types_ok ELSE ev.arity = 5>>,
       <<"C09", "aux_positions",
         /\ ev.obs.aux[1] = B(ev.info.success) /\ ev.obs.aux[2] = B(ev.info.conn)
         /\ ev.obs.aux[3] = B(ev.info.perm) /\ ev.obs.aux[4] = B(ev.info.undef)
         /\ \A c \in 5..RowLen : ev.obs.aux[c] = 0>>,
       <<"C09", "flat_is_row_major", ev.obs.flat_sha = ev.obs.twod_sha>>,
       <<"C13", "argument_unchanged", ev.ev = "genstep" => ev.arg_sha[1] = ev.arg_sha[2]>>,
       <<"C13", "current_state_unchanged", ev.ev = "genstep" => ev.cur_sha[1] = ev.cur_sha[2]>>,
       <<"C13", "last_obs_unchanged", ev.ev = "genstep" => ev.lastobs_sha[1] = ev.lastobs_sha[2]>>,
       <<"C13", "steps_unchanged", ev.ev = "genstep" => ev.steps_after = ev.steps_before>>,
       <<"C13", "result_shares_no_storage", ~ev.shares_memory>>,
       \* a State object the caller kept (returned earlier by step) is still what it was when it is used again
       <<"C13", "kept_state_unchanged_since_returned", "held_same" \in DOMAIN ev => ev.held_same>>,
       <<"C13", "step_installs_that_state", ev.ev = "step" => ev.installed>>,
       <<"C14", "no_other_entropy", Len(ev.entropy) = 0>>,
       <<"C13", "state_not_modified_between_calls", ev.ev = "step" => Len(ev.pre_rows) = 0>>,
       \* the observation array returned by the previous reset / step of this environment is not rewritten by this call
       <<"C08", "earlier_observation_not_rewritten", "prev_obs_same" \in DOMAIN ev => ev.prev_obs_same>>,
       <<"C06", "steps_counter_continuity", ev.steps_before = steps[e]>> >>

HistClauses(ev, E) ==
    LET e == ev.env
        rooted == {h \in Hosts : E.pre[h].acc # 2 /\ E.post[h].acc = 2}
        found == {h \in Hosts : ~E.pre[h].disc /\ E.post[h].disc} IN
    IF ev.ev # "step" THEN <<>>
    ELSE << <<"C05", "host_value_paid_once", rooted \cap paidVal[e] = {}>>,
            <<"C05", "discovery_value_paid_once", found \cap paidDisc[e] = {}>> >>

\* C07: an action whose preconditions do not hold is unaffected by chance -
\* same state, action and opposite sides of the draw must give the same
\* outcome (success, value, next state).
\* C13: step() from the current state, given the same draw, yields what the
\* generative step yielded (the harness calls generative_step(current state)
\* and then step with the same action and draw).
PairClauses(ev, E) ==
    LET prv == prev[ev.env] IN
    IF ~prv.valid \/ prv.pre # E.pre \/ prv.a # E.a THEN <<>>
    ELSE IF ev.ev = "genstep" /\ prv.luck # E.luck /\ ~AllPre(E.pre, E.a)
      THEN << <<"C07", "pre_failed_outcome_independent_of_draw",
                /\ prv.res.success = E.res.success /\ prv.res.value = E.res.value
                /\ prv.post = E.post>>,
              \* a failed network-level precondition (not discovered / reachable, no pivot, traffic
              \* blocked, escalation on an uncompromised host) is reported identically on both sides
              <<"C07", "network_level_failure_report_independent_of_draw",
                (~NetPre(E.pre, E.a) \/ (E.a.kind = "privesc" /\ ~E.pre[E.a.target].comp))
                   => prv.res = E.res /\ prv.aux = E.aux>> >>
    ELSE IF ev.ev = "step" /\ prv.u = ev.u /\ (IsBlind(ev) => prv.luck = E.luck)
      THEN << <<"C13", "step_equals_genstep",
                /\ prv.post = E.post /\ prv.postRows = E.postRow
                /\ prv.res = E.res /\ prv.reward = E.reward /\ prv.term = E.term
                /\ prv.aux = E.aux
                /\ \A h \in Hosts : prv.obs[h] = E.obs[h]>> >>
    ELSE <<>>

\* C12: calls of one lock-step group (same scenario, same draws, semantically
\* identical action, different mode combinations) must agree on state, reward,
\* flags and info; observations of the same observability agree whatever
\* the shape.  Only calls whose decoded action equals the group's are compared.
HasGrp(ev) == "grp" \in DOMAIN ev
GroupClauses(ev, E) ==
    IF ~HasGrp(ev) THEN <<>>
    ELSE IF grp.id # ev.grp \/ grp.ev # ev.ev THEN <<>>
    ELSE IF grp.a # E.a \/ grp.u # ev.u \/ (IsBlind(ev) /\ grp.luck # E.luck) THEN <<>>
    ELSE << <<"C12", "lockstep_state_reward_flags_info_equal",
              /\ grp.pre = E.pre /\ grp.post = E.post /\ grp.postRows = E.postRow
              /\ grp.reward = E.reward /\ grp.term = E.term /\ grp.trunc = E.trunc
              /\ grp.res = E.res /\ grp.aux = E.aux>>,
            <<"C12", "same_observability_same_rows",
              grp.fo = E.fo => \A h \in Hosts : grp.obs[h] = E.obs[h]>>,
            <<"C12", "full_vs_masked_rows",
              (grp.fo /\ ~E.fo) =>
                 \A h \in Hosts : \A c \in NZCols(E.obs[h]) : E.obs[h][c] = grp.obs[h][c]>> >>

\* C13 (purity): generative_step on a state that is NOT the environment's current one answers for the state it
\* was given - outcome, value and next state are the reference semantics' function of that state, the action
\* and the draw, whatever the environment itself went through before
ForeignClauses(ev, E, x) ==
    IF ev.ev = "genstep" /\ Len(ev.pre_rows) > 0
    THEN << <<"C13", "foreign_state_result_depends_on_argument_only",
              E.post = x.st /\ E.res.success = x.success /\ E.res.value = x.value>> >>
    ELSE <<>>

StepEv ==
    /\ l <= N /\ Ev.ev \in {"step", "genstep"} /\ ~Malformed(Ev)
    /\ LET ev == Ev  e == ev.env
           preRows == ApplyRows(raw[e], ev.pre_rows)
           postRows == ApplyRows(preRows, ev.post_rows)
           okPre == RowsWellFormed(preRows)
           okPost == RowsWellFormed(postRows)
           preSt == IF Len(ev.pre_rows) = 0 THEN abs[e]
                    ELSE IF okPre THEN Decode(preRows) ELSE abs[e]
           postSt == IF okPost THEN Decode(postRows) ELSE preSt
           a == ActOfEv(ev.a, e)
           E == EOfEv(ev, a, preSt, postSt, postRows)
           x == Trans(preSt, a, E.luck)
           failed == Failed(StepClauses(E) \o RawClauses(ev, preRows, postRows)
                            \o HistClauses(ev, E) \o PairClauses(ev, E)
                            \o GroupClauses(ev, E) \o ForeignClauses(ev, E, x) \o Drift(E)
                            \o << <<"DRIFT", "caller_action_array_unchanged", ~ev.arg_modified>> >>)
                     \cup (IF okPre /\ okPost THEN {} ELSE {<<"C09", "status_columns_wellformed">>})
       IN
       /\ Report(failed, ev.i)
       /\ IF ev.ev = "step"
            THEN /\ raw' = [raw EXCEPT ![e] = postRows]
                 /\ abs' = [abs EXCEPT ![e] = postSt]
                 /\ steps' = [steps EXCEPT ![e] = ev.steps_after]
                 /\ paidVal' = [paidVal EXCEPT ![e] = @ \cup {h \in Hosts : preSt[h].acc # 2 /\ postSt[h].acc = 2}]
                 /\ paidDisc' = [paidDisc EXCEPT ![e] = @ \cup {h \in Hosts : ~preSt[h].disc /\ postSt[h].disc}]
            ELSE UNCHANGED <<raw, abs, steps, paidVal, paidDisc>>
       \* a look-ahead from ANOTHER state (pre_rows non-empty) between generative_step(current) and step() does not
       \* break the pair: the environment's own state has not moved
       /\ prev' = [prev EXCEPT ![e] = IF ev.ev = "genstep" /\ Len(ev.pre_rows) > 0 THEN @
                    ELSE IF ev.ev = "genstep"
                    THEN [valid |-> TRUE, pre |-> preSt, a |-> a, luck |-> E.luck, u |-> ev.u,
                          res |-> E.res, post |-> postSt, postRows |-> E.postRow,
                          reward |-> E.reward, term |-> E.term, aux |-> E.aux, obs |-> E.obs]
                    ELSE [valid |-> FALSE]]
       /\ grp' = IF HasGrp(ev) /\ (grp.id # ev.grp \/ grp.ev # ev.ev)
                   THEN [id |-> ev.grp, ev |-> ev.ev, a |-> a, u |-> ev.u, luck |-> E.luck, pre |-> preSt, post |-> postSt,
                         postRows |-> E.postRow, reward |-> E.reward, term |-> E.term, trunc |-> E.trunc,
                         res |-> E.res, aux |-> E.aux, fo |-> E.fo, obs |-> E.obs]
                   ELSE grp
       /\ hist' = LET h1 == Bump(hist, <<a.kind, x.gate, E.luck>>) IN
                  IF E.blind /\ AllPre(preSt, a) /\ ~NoDraw(preSt, a)
                    THEN Bump(h1, <<"blind", a.prob, E.luck>>) ELSE h1
    /\ UNCHANGED <<initRaw, mode, ndec>>
    /\ l' = l + 1

\* -------------------------------------------------------------------- goal
GoalEv ==
    /\ l <= N /\ Ev.ev = "goal" /\ ~Malformed(Ev)
    /\ LET ev == Ev  e == ev.env
           rows == ApplyRows(raw[e], ev.pre_rows)
           st == IF RowsWellFormed(rows) THEN Decode(rows) ELSE abs[e] IN
       Report(Failed(<< <<"C06", "goal_query_any_state", ev.ans <=> Goal(st)>>,
                        <<"C13", "kept_state_unchanged_since_returned",
                          "held_same" \in DOMAIN ev => ev.held_same>> >>), ev.i)
    /\ UNCHANGED <<raw, abs, initRaw, steps, mode, paidVal, paidDisc, prev, grp, ndec, hist>>
    /\ l' = l + 1

\* ------------------------------------------------- action spaces (C11, C10)
Proj(a) == a    \* an implementation Action object is logged with the fields of NASimCore!Act

ActionsClauses(ev) ==
    LET L == ev.list  p == PermOf(ev.env) IN
    << <<"C11", "size_as_advertised", Len(L) = NActions>>,
       <<"C11", "flat_list_equals_spec",
         Len(L) = NActions /\ \A k \in 1..NActions : L[k] = FlatAt(p[k])>>,
       <<"C11", "no_duplicates", Cardinality(SeqSet(L)) = Len(L)>> >>

ActionsEv ==
    /\ l <= N /\ Ev.ev = "actions"
    /\ Report(Failed(ActionsClauses(Ev)), Ev.i)
    /\ UNCHANGED <<raw, abs, initRaw, steps, mode, paidVal, paidDisc, prev, grp, ndec, hist>>
    /\ l' = l + 1

DecodeClauses(ev) ==
    IF ~InParamSpace(ev.vec)
      THEN << <<"C11", "vector_of_the_advertised_space_is_in_the_documented_space", FALSE>> >>
    ELSE
    LET want == DecodeParam(ev.vec) IN
    << <<"C11", "param_decodes_as_spec", ev.got = want>>,
       <<"C11", "param_is_noop_or_flat_member",
         /\ ev.got = NoopAct \/ \E k \in 1..NActions : FlatAt(k) = ev.got
         /\ ev.member_by_api_equality>> >>

DecodeEv ==
    /\ l <= N /\ Ev.ev = "decode"
    /\ Report(Failed(DecodeClauses(Ev)), Ev.i)
    /\ ndec' = [ndec EXCEPT ![Ev.env] = @ + 1]
    /\ UNCHANGED <<raw, abs, initRaw, steps, mode, paidVal, paidDisc, prev, grp, hist>>
    /\ l' = l + 1

\* end of an exhaustive enumeration of the parameterised space
ParamSpaceSize == ParamNvec[1] * ParamNvec[2] * ParamNvec[3] * ParamNvec[4] * ParamNvec[5] * ParamNvec[6]
DecodeDoneEv ==
    /\ l <= N /\ Ev.ev = "decode_done"
    /\ Report(Failed(<< <<"C11", "whole_parameter_space_decoded", ndec[Ev.env] = ParamSpaceSize>> >>), Ev.i)
    /\ ndec' = [ndec EXCEPT ![Ev.env] = 0]
    /\ UNCHANGED <<raw, abs, initRaw, steps, mode, paidVal, paidDisc, prev, grp, hist>>
    /\ l' = l + 1

MaskEv ==
    /\ l <= N /\ Ev.ev = "mask" /\ ~Malformed(Ev)
    /\ LET ev == Ev  st == abs[ev.env] IN
       Report(Failed(<< <<"C11", "mask_one_entry_per_action", Len(ev.mask) = NActions>>,
                        <<"C11", "mask_iff_discovered",
                          Len(ev.mask) = NActions /\
                          \A k \in 1..NActions :
                             ev.mask[k] = (IF st[FlatAt(PermOf(ev.env)[k]).target].disc THEN 1 ELSE 0)>>,
                        <<"C13", "state_not_modified_between_calls", Len(ev.pre_rows) = 0>> >>), ev.i)
    /\ UNCHANGED <<raw, abs, initRaw, steps, mode, paidVal, paidDisc, prev, grp, ndec, hist>>
    /\ l' = l + 1

\* ------------------------------------------- decoders / constructors (C09)
ReadableOf(row) ==
    LET d == DecodeRow(row) IN
    [addr |-> <<IF d.subs = {} THEN 0 ELSE Min(d.subs), IF d.ids = {} THEN 0 ELSE Min(d.ids)>>,
     comp |-> d.status.comp, reach |-> d.status.reach, disc |-> d.status.disc,
     value |-> d.value, dvalue |-> d.dvalue, access |-> row[ColAcc],
     os |-> d.os, srvs |-> d.srvs, procs |-> d.procs]

ReadableMatches(rd, row) ==
    LET want == ReadableOf(row) IN
    /\ rd.addr = want.addr /\ rd.comp = want.comp /\ rd.reach = want.reach /\ rd.disc = want.disc
    /\ rd.value = want.value /\ rd.dvalue = want.dvalue /\ rd.access = want.access
    /\ SeqSet(rd.os) = want.os /\ SeqSet(rd.srvs) = want.srvs /\ SeqSet(rd.procs) = want.procs

\* ev.rows: the raw array that was fed to the public constructor / decoder
ReadableEv ==
    /\ l <= N /\ Ev.ev = "readable" /\ ~Malformed(Ev)
    /\ LET ev == Ev IN
       Report(Failed(<< <<"C09", "readable_roundtrip",
                          /\ Len(ev.readable) = Len(ev.rows)
                          /\ \A r \in 1..Len(ev.rows) : ReadableMatches(ev.readable[r], ev.rows[r])>>,
                        <<"C09", "from_numpy_roundtrip", Len(ev.roundtrip_diff) = 0 /\ ev.shape_ok>>,
                        <<"C09", "readable_of_live_state_equals_decoded",
                          "live_equal" \in DOMAIN ev => ev.live_equal>>,
                        <<"C04", "reading_leaves_state_alone",
                          "live_unchanged" \in DOMAIN ev => ev.live_unchanged>>,
                        <<"C09", "flat_is_row_major_whatever_memory_order",
                          "flat_any_order" \in DOMAIN ev => ev.flat_any_order>>,
                        <<"C09", "aux_readable",
                          ev.what = "obs" =>
                             /\ ev.aux_readable.success = (ev.aux[1] # 0) /\ ev.aux_readable.conn = (ev.aux[2] # 0)
                             /\ ev.aux_readable.perm = (ev.aux[3] # 0) /\ ev.aux_readable.undef = (ev.aux[4] # 0)>> >>),
              ev.i)
    /\ UNCHANGED <<raw, abs, initRaw, steps, mode, paidVal, paidDisc, prev, grp, ndec, hist>>
    /\ l' = l + 1

\* ---------------------------------------------------------------- plan end
\* C16: the last step of a replayed plan returned terminated, and the state it left is a goal state
PlanEndEv ==
    /\ l <= N /\ Ev.ev = "plan_end"
    /\ Report(Failed(<< <<"C16", "plan_replays_to_terminated", Ev.term /\ Ev.goal /\ Goal(abs[Ev.env])>> >>), Ev.i)
    /\ UNCHANGED <<raw, abs, initRaw, steps, mode, paidVal, paidDisc, prev, grp, ndec, hist>>
    /\ l' = l + 1

\* ------------------------------------------------------------- episode end
\* C20: a recorded goal-reaching episode of the real environment: its total reward (summed by the harness
\* from the rewards step returned) and the number of hosts the decoded final state holds, against what the
\* environment advertises
EpisodeEndEv ==
    /\ l <= N /\ Ev.ev = "episode_end"
    /\ LET ev == Ev  st == abs[ev.env] IN
       Report(Failed(<< <<"C20", "goal_total_within_advertised_bound",
                          (ev.term /\ Goal(st)) => ev.total <= ev.ub>>,
                        <<"C20", "advertised_hops_within_minimum",
                          (ev.term /\ Goal(st) /\ ev.fwfree) =>
                             Cardinality({h \in Hosts : st[h].comp}) >= ev.hops>>,
                        <<"DRIFT", "advertised_bound_formula",
                          ev.ub = SumVal(Sens) + SumDVal(Hosts) - 1000 * ev.hops>> >>), ev.i)
    /\ UNCHANGED <<raw, abs, initRaw, steps, mode, paidVal, paidDisc, prev, grp, ndec, hist>>
    /\ l' = l + 1

\* --------------------------------------------------- coexistence (C19)
\* measured around every call of a multi-environment schedule: which OTHER live environments had their state
\* tensor / last observation / API decoding changed by this call.  victims = environments whose layout is not
\* the one built by this call (only they are covered by the known finding KF_ForeignLayout).
C19Ev ==
    /\ l <= N /\ Ev.ev = "c19"
    /\ LET ev == Ev
           dc == SeqSet(ev.others_decode_changed)
           vi == SeqSet(ev.victims) IN
       Report(Failed(<< <<"C19", "others_unchanged", Len(ev.others_changed) = 0>>,
                        <<"C19", "decoding_of_others_stable", dc \subseteq vi>>,
                        <<"C19", "decoding_of_others_stable_foreign_layout", dc \cap vi = {}>> >>), ev.i)
    /\ UNCHANGED <<raw, abs, initRaw, steps, mode, paidVal, paidDisc, prev, grp, ndec, hist>>
    /\ l' = l + 1

\* --------------------------------------------------------- draws across episodes
\* C07 when the draw is NOT intercepted (numpy's own generator, seeded once): the first draw of the episodes of
\* one environment is not always the same number
FreqEv ==
    /\ l <= N /\ Ev.ev = "freq"
    /\ Report(Failed(<< <<"C07", "draws_vary_across_episodes",
                          Ev.episodes >= 5 => Ev.distinct_first_draws > 1>> >>), Ev.i)
    /\ UNCHANGED <<raw, abs, initRaw, steps, mode, paidVal, paidDisc, prev, grp, ndec, hist>>
    /\ l' = l + 1

\* ------------------------------------------- beyond the listed properties
\* generate_initial_state() returns the scenario's initial state and leaves the environment alone;
\* generate_random_initial_state() keeps addresses, values and the initial status columns, and gives every host
\* exactly one OS (only services / processes / OS are randomised).  Tag BEYOND: reported, never a verdict.
InitStateEv ==
    /\ l <= N /\ Ev.ev = "initstate"
    /\ LET ev == Ev
           okI == Len(ev.initial) = NHosts /\ RowsOK(ev.initial)
           okR == Len(ev.random) = NHosts /\ RowsOK(ev.random) IN
       Report(Failed(<< <<"BEYOND", "generate_initial_state_is_the_initial_state",
                          okI /\ \A r \in 1..NHosts : ev.initial[r] = EncodeRow(InitSt, HostOrder[r])>>,
                        <<"BEYOND", "generate_initial_state_leaves_environment_alone", ev.cur_unchanged>>,
                        <<"BEYOND", "random_initial_state_keeps_addresses_values_and_initial_status",
                          okR /\ \A r \in 1..NHosts :
                             \A c \in AddrCols \cup StatusCols \cup {ColVal, ColDVal} :
                                ev.random[r][c] = EncodeRow(InitSt, HostOrder[r])[c]>>,
                        <<"BEYOND", "random_initial_state_one_os_per_host",
                          okR /\ \A r \in 1..NHosts : Cardinality({c \in OSCols : ev.random[r][c] # 0}) = 1>> >>), ev.i)
    /\ UNCHANGED <<raw, abs, initRaw, steps, mode, paidVal, paidDisc, prev, grp, ndec, hist>>
    /\ l' = l + 1

\* --------------------------------------------------------------- malformed
MalformedEv ==
    /\ l <= N /\ Malformed(Ev)
    /\ PrintT(<<"FAIL", "C09", "row_length", Ev.i>>)
    /\ IF Ev.ev = "create"
         THEN LET e == Ev.env IN
              /\ raw' = Put(raw, e, EncodeState(InitSt))
              /\ initRaw' = Put(initRaw, e, EncodeState(InitSt))
              /\ abs' = Put(abs, e, InitSt)
              /\ steps' = Put(steps, e, 0)
              /\ mode' = Put(mode, e, [fo |-> Ev.modes.fo, fa |-> Ev.modes.fa, f1 |-> Ev.modes.f1,
                                      low |-> Ev.adv.low, high |-> Ev.adv.high, perm |-> PermOfCreate(Ev)])
              /\ ndec' = Put(ndec, e, 0)
              /\ paidVal' = Put(paidVal, e, {})
              /\ paidDisc' = Put(paidDisc, e, {})
              /\ prev' = Put(prev, e, [valid |-> FALSE])
         ELSE UNCHANGED <<raw, abs, initRaw, steps, mode, paidVal, paidDisc, prev, ndec>>
    /\ UNCHANGED <<grp, hist>>
    /\ l' = l + 1

\* ------------------------------------------------------------------ raised
\* the specification makes reset / step / generative_step total: an
\* exception escaping one of them is never explained
RaisedEv ==
    /\ l <= N /\ Ev.ev = "raised"
    /\ PrintT(<<"FAIL", Ev.prop, Ev.clause, Ev.i>>)
    /\ UNCHANGED <<raw, abs, initRaw, steps, mode, paidVal, paidDisc, prev, grp, ndec, hist>>
    /\ l' = l + 1

\* copy.deepcopy(environment): the copy is a new environment that continues the SAME episode - same state, same
\* step count, same history of paid values - and from then on the two are independent; every later call of either
\* is judged as usual (its step counter and its state continue from the parent's)
ForkEv ==
    /\ l <= N /\ Ev.ev = "fork" /\ Ev.of \in DOMAIN raw
    /\ LET ev == Ev  e == ev.env  p == ev.of IN
       /\ Report(Failed(<< <<"C19", "copy_of_an_environment_has_the_same_state",
                             ev.same_tensor /\ ev.same_last_obs /\ ~ev.shares_memory>>,
                           <<"C06", "copy_of_an_environment_keeps_the_step_count", ev.steps = steps[p]>> >>), ev.i)
       /\ raw' = Put(raw, e, raw[p])
       /\ initRaw' = Put(initRaw, e, initRaw[p])
       /\ abs' = Put(abs, e, abs[p])
       /\ steps' = Put(steps, e, steps[p])
       /\ mode' = Put(mode, e, mode[p])
       /\ ndec' = Put(ndec, e, 0)
       /\ paidVal' = Put(paidVal, e, paidVal[p])
       /\ paidDisc' = Put(paidDisc, e, paidDisc[p])
       /\ prev' = Put(prev, e, [valid |-> FALSE])
    /\ UNCHANGED <<grp, hist>>
    /\ l' = l + 1

\* an event kind this monitor has no clauses for (validated by another module)
OtherEv ==
    /\ l <= N /\ Ev.ev \notin {"create", "reset", "step", "genstep", "goal", "raised", "actions", "decode",
                              "decode_done", "mask", "readable", "plan_end", "episode_end", "c19", "freq", "initstate", "fork"}
    /\ UNCHANGED <<raw, abs, initRaw, steps, mode, paidVal, paidDisc, prev, grp, ndec, hist>>
    /\ l' = l + 1

Next == Create \/ ResetEv \/ StepEv \/ GoalEv \/ RaisedEv \/ ActionsEv \/ DecodeEv \/ DecodeDoneEv
        \/ MaskEv \/ ReadableEv \/ PlanEndEv \/ EpisodeEndEv \/ C19Ev \/ FreqEv \/ InitStateEv \/ ForkEv \/ MalformedEv \/ OtherEv

Spec == Init /\ [][Next]_vars

\* every line consumed; also prints the coverage histogram
Accepted ==
    /\ PrintT(<<"CONSUMED", TLCGet("stats").diameter - 1, N>>)
    /\ TLCGet("stats").diameter - 1 = N

\* C07, when the draw cannot be intercepted: over the calls whose preconditions held, the number of successes of
\* the actions of one probability p stays within six standard deviations of n p (counts; 32-bit arithmetic)
BlindKeys == {k \in DOMAIN hist : k[1] = "blind"}
BlindProbs == {k[2] : k \in BlindKeys}
CountOf(k) == IF k \in DOMAIN hist THEN hist[k] ELSE 0
FreqOK(p) ==
    LET s == CountOf(<<"blind", p, TRUE>>)
        n == s + CountOf(<<"blind", p, FALSE>>)
        pm == p \div 1000                           \* per mille
        d == (IF s * 1000 >= n * pm THEN s * 1000 - n * pm ELSE n * pm - s * 1000) \div 1000
        v == (((n * pm) \div 1000) * (1000 - pm)) \div 1000 + 1
        d2 == d - (n \div 1000) - 1 IN             \* truncation of d and of p to per mille
    n > 30000 \/ d2 <= 0 \/ d2 * d2 <= 36 * v
Done == l = N + 1 =>
           /\ PrintT(<<"HIST", [k \in DOMAIN hist \ BlindKeys |-> hist[k]]>>)
           /\ Report({<<"C07", "success_frequency_matches_probability">> : p \in {q \in BlindProbs : ~FreqOK(q)}}, N)

=============================================================================
