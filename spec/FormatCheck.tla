----------------------------- MODULE FormatCheck ----------------------------
(***************************************************************************)
(* Binding of ScenarioFormat to the real loader.                           *)
(*                                                                         *)
(* DOC_FILE holds one JSON object per line:                                *)
(*   [id, kind \in {"valid", "mutant"}, rule, pos, doc (tagged tree),      *)
(*    loaded]  where loaded is what nasim.load_scenario did with the       *)
(*   document rendered to YAML:  [ok |-> FALSE, exc |-> ...]  or the       *)
(*   canonical export of the Scenario object it returned.                  *)
(*                                                                         *)
(* Spec GenSpec (config FormatGen.cfg): for every base document and every  *)
(*   rule x position of the C18 catalogue print the broken document.       *)
(* Spec ChkSpec (config FormatChk.cfg): C17 - a valid document is          *)
(*   accepted and the loaded scenario equals Interp(doc) field by field;   *)
(*   C18 - a broken document is rejected.                                  *)
(***************************************************************************)
EXTENDS ScenarioFormat, Json, IOUtils, TLCExt

Lines == ndJsonDeserialize(IOEnv.DOC_FILE)
NL == Len(Lines)

VARIABLE l
vars == <<l>>

Init == l = 1

\* ------------------------------------------------------------ mutant generation
GenNext ==
    /\ l <= NL
    /\ LET ln == Lines[l]  d == ln.doc IN
       /\ IF Valid(d) THEN TRUE ELSE PrintT(<<"BASE-NOT-VALID", ln.id, FailingGroup(d)>>)
       /\ \A ri \in 1..Len(Rules) :
            LET r == Rules[ri] IN
            \A p \in 1..NPos(r, d) :
               LET m == Break(r, p, d) IN
               PrintT(<<"MUT", ln.id, r, p, FailingGroup(m), GroupOfRule(r), ToJson(m)>>)
    /\ l' = l + 1
GenSpec == Init /\ [][GenNext]_vars

\* ------------------------------------------------------------ checking the loader
SeqSet(s) == {s[i] : i \in 1..Len(s)}
PairsFun(ps) == [a \in {ps[i][1] : i \in 1..Len(ps)} |-> (ps[CHOOSE i \in 1..Len(ps) : ps[i][1] = a][2])]

SameColl(s, t) == Len(s) = Len(t) /\ SeqSet(s) = SeqSet(t)
ValidClauses(d, L) ==
    LET I == Interp(d)
        LH == PairsFun(L.hosts)
        same(a) ==
            /\ a \in DOMAIN LH
            /\ SeqSet(LH[a].os) = {I.hosts[a].os}
            /\ SeqSet(LH[a].srvs) = I.hosts[a].srvs
            /\ SeqSet(LH[a].procs) = I.hosts[a].procs
    IN
    << <<"C17", "field.subnets", L.subnets = I.subnets>>,
       <<"C17", "field.topology", L.topology = I.topology>>,
       \* name lists and definitions are compared as collections: the ORDER in which a scenario keeps them is not
       \* among the things C17 says are reproduced (it is noted as DRIFT)
       <<"C17", "field.os_services_processes",
         /\ SameColl(L.os, I.os) /\ SameColl(L.services, I.services) /\ SameColl(L.processes, I.processes)>>,
       <<"DRIFT", "field.order_of_names_and_definitions",
         /\ L.os = I.os /\ L.services = I.services /\ L.processes = I.processes
         /\ L.exploits = I.exploits /\ L.privescs = I.privescs>>,
       <<"C17", "field.sensitive_hosts", PairsFun(L.sens) = I.sens>>,
       <<"C17", "field.exploits", SameColl(L.exploits, I.exploits)>>,
       <<"C17", "field.privilege_escalation", SameColl(L.privescs, I.privescs)>>,
       <<"C17", "field.scan_costs", L.scan = I.scan>>,
       \* the order in which the hosts are listed is not among the things C17 says the scenario reproduces: noted only
       <<"DRIFT", "field.host_order", L.hostorder = I.hostorder>>,
       <<"C17", "field.host_os_services_processes", \A a \in DOMAIN I.hosts : same(a)>>,
       <<"C17", "field.host_values",
         \A a \in DOMAIN I.hosts : a \in DOMAIN LH /\ LH[a].value = I.hosts[a].value>>,
       <<"C17", "field.host_firewall_deny_lists",
         \A a \in DOMAIN I.hosts :
            /\ a \in DOMAIN LH
            /\ LET ld == PairsFun(LH[a].deny) IN
               /\ DOMAIN ld = DOMAIN I.hosts[a].deny
               /\ \A s \in DOMAIN ld : SeqSet(ld[s]) = I.hosts[a].deny[s]>>,
       <<"C17", "field.subnet_firewall",
         LET lf == PairsFun(L.fw) IN
         /\ DOMAIN lf = DOMAIN I.fw
         /\ \A p \in DOMAIN lf : SeqSet(lf[p]) = I.fw[p]>>,
       <<"C17", "field.step_limit", L.step_limit = I.step_limit>> >>

Failed(cs) == {<<cs[i][1], cs[i][2]>> : i \in {j \in 1..Len(cs) : ~cs[j][3]}}
Report(failed, id) == \A c \in failed : PrintT(<<"FAIL", c[1], c[2], id>>)

ChkNext ==
    /\ l <= NL
    /\ LET ln == Lines[l]  d == ln.doc  L == ln.loaded IN
       IF ln.kind = "valid"
         THEN IF ~Valid(d) THEN PrintT(<<"BASE-NOT-VALID", ln.id, FailingGroup(d)>>)
              ELSE IF ~L.ok THEN PrintT(<<"FAIL", "C17", "valid_document_accepted", ln.id>>)
              ELSE Report(Failed(ValidClauses(d, L)), ln.id)
         ELSE IF Valid(d) THEN PrintT(<<"MUTANT-STILL-VALID", ln.id, ln.rule>>)
              ELSE IF L.ok THEN PrintT(<<"FAIL", "C18", "rejected." \o ln.rule, ln.id>>)
              ELSE TRUE
    /\ l' = l + 1
ChkSpec == Init /\ [][ChkNext]_vars

Accepted ==
    /\ PrintT(<<"CONSUMED", TLCGet("stats").diameter - 1, NL>>)
    /\ TLCGet("stats").diameter - 1 = NL

=============================================================================
