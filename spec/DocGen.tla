------------------------------- MODULE DocGen -------------------------------
(***************************************************************************)
(* Generator of VALID scenario documents (ScenarioFormat!Valid) as a state *)
(* machine that builds a document piece by piece within small bounds.      *)
(* Under `tlc -simulate` every behaviour ends by printing one document as  *)
(* JSON (tagged tree); the harness renders it to YAML and feeds it to the  *)
(* real loader.  The invariant EmittedValid checks that what the generator *)
(* emits is valid by the specification's own rules.                        *)
(***************************************************************************)
EXTENDS ScenarioFormat, Json, SequencesExt

VARIABLES stage, sh, topo, exps, pes, sens, hosts, fw, scan, idx

vars == <<stage, sh, topo, exps, pes, sens, hosts, fw, scan, idx>>

OsOptions == {<<"linux">>, <<"linux", "windows">>}
SrvOptions == {<<"ssh">>, <<"ssh", "ftp">>, <<"http", "ssh", "ftp">>}
ProcOptions == {<<"tomcat">>, <<"cron", "tomcat">>}
ProbOptions == {IntN(0), NumN(300000), NumN(900000), NumN(M), IntN(1)}
CostOptions == {IntN(1), NumN(2500000), NumN(250000)}
AccessOptions == <<StrN("user"), StrN("root"), IntN(1), IntN(2)>>   \* a sequence: TLC cannot sort a set of mixed types
ScanOptions == {IntN(0), IntN(1), NumN(2500000), NumN(500000)}
ValueOptions == {NumN(-3000000), IntN(0), NumN(2500000), IntN(7)}
SensValues == {IntN(1), NumN(10500000), IntN(100)}

PairLess(a, b) == a[1] < b[1] \/ (a[1] = b[1] /\ a[2] < b[2])
PairsToSeq(S) == SetToSortSeq(S, PairLess)
SubSeqOf(seq, S) == SelectSeq(seq, LAMBDA x : x \in S)

Init ==
    /\ stage = "shape" /\ sh = <<>> /\ topo = <<>> /\ exps = <<>> /\ pes = <<>> /\ sens = <<>>
    /\ hosts = <<>> /\ fw = <<>> /\ scan = <<>> /\ idx = 1

AddrList(sizes) ==
    LET n == Len(sizes)
        RECURSIVE go(_, _)
        go(s, acc) == IF s > n THEN acc
                      ELSE go(s + 1, acc \o [h \in 1..sizes[s] |-> <<s, h - 1>>])
    IN go(1, <<>>)

Shape ==
    /\ stage = "shape"
    /\ \E nsub \in 1..3 : \E sizes \in [1..nsub -> 1..2] :
       \E osl \in OsOptions, srvl \in SrvOptions, procl \in ProcOptions :
       \E ne \in 1..3, np \in 0..2, lim \in {0, 5, 100}, rev \in BOOLEAN :
          sh' = [nsub |-> nsub, sizes |-> sizes, os |-> osl, srv |-> srvl, proc |-> procl,
                 ne |-> ne, np |-> np, lim |-> lim,
                 addrs |-> IF rev THEN Reverse(AddrList(sizes)) ELSE AddrList(sizes)]
    /\ stage' = "topo"
    /\ UNCHANGED <<topo, exps, pes, sens, hosts, fw, scan, idx>>

Topo ==
    /\ stage = "topo"
    /\ \E pub \in SUBSET (1..sh.nsub) : \E edges \in SUBSET {<<a, b>> \in (1..sh.nsub) \X (1..sh.nsub) : a < b} :
          /\ 1 \in pub
          /\ topo' = [i \in 0..sh.nsub |-> [j \in 0..sh.nsub |->
                        IF i = j THEN 1
                        ELSE IF i = 0 THEN (IF j \in pub THEN 1 ELSE 0)
                        ELSE IF j = 0 THEN (IF i \in pub THEN 1 ELSE 0)
                        ELSE IF <<i, j>> \in edges \/ <<j, i>> \in edges THEN 1 ELSE 0]]
    /\ stage' = "exploit" /\ idx' = 1
    /\ UNCHANGED <<sh, exps, pes, sens, hosts, fw, scan>>

ActNode(what, tgt, os, prob, cost, acc) ==
    Map(<<StrN(what), StrN("os"), StrN("prob"), StrN("cost"), StrN("access")>>, <<StrN(tgt), StrN(os), prob, cost, acc>>)

Exploit ==
    /\ stage = "exploit"
    /\ \E s \in Rng(sh.srv), o \in Rng(sh.os) \cup {"none", "None"}, p \in ProbOptions, c \in CostOptions,
          a \in 1..Len(AccessOptions) :
          exps' = Append(exps, ActNode("service", s, o, p, c, AccessOptions[a]))
    /\ IF idx < sh.ne THEN idx' = idx + 1 /\ stage' = stage
       ELSE idx' = 1 /\ stage' = (IF sh.np = 0 THEN "sens" ELSE "privesc")
    /\ UNCHANGED <<sh, topo, pes, sens, hosts, fw, scan>>

Privesc ==
    /\ stage = "privesc"
    /\ \E s \in Rng(sh.proc), o \in Rng(sh.os) \cup {"none"}, p \in ProbOptions, c \in CostOptions,
          a \in 1..Len(AccessOptions) :
          pes' = Append(pes, ActNode("process", s, o, p, c, AccessOptions[a]))
    /\ IF idx < sh.np THEN idx' = idx + 1 /\ stage' = stage ELSE idx' = 1 /\ stage' = "sens"
    /\ UNCHANGED <<sh, topo, exps, sens, hosts, fw, scan>>

Sens ==
    /\ stage = "sens"
    /\ \E S \in SUBSET Rng(sh.addrs) : \E v1 \in SensValues, v2 \in SensValues :
          /\ Cardinality(S) \in {1, 2}
          /\ LET lst == PairsToSeq(S) IN
             sens' = [a \in S |-> IF a = lst[1] THEN v1 ELSE v2]
    /\ stage' = "host" /\ idx' = 1
    /\ UNCHANGED <<sh, topo, exps, pes, hosts, fw, scan>>

HostStep ==
    /\ stage = "host"
    /\ LET a == sh.addrs[idx] IN
       \E o \in Rng(sh.os) : \E ss \in (SUBSET Rng(sh.srv)) \ {{}} : \E ps \in SUBSET Rng(sh.proc) :
       \E val \in {[k |-> "absent"]} \cup (IF a \in DOMAIN sens THEN {[k |-> "same"]}
                                            ELSE {[k |-> "val", n |-> v] : v \in ValueOptions}) :
       \E deny \in {[k |-> "absent"], [k |-> "empty"]}
                   \cup {[k |-> "one", b |-> b, s |-> s] : b \in Rng(sh.addrs), s \in Rng(sh.srv)} :
          LET base == Map(<<StrN("os"), StrN("services"), StrN("processes")>>,
                          <<StrN(o), List([i \in 1..Len(SubSeqOf(sh.srv, ss)) |-> StrN(SubSeqOf(sh.srv, ss)[i])]),
                            List([i \in 1..Len(SubSeqOf(sh.proc, ps)) |-> StrN(SubSeqOf(sh.proc, ps)[i])])>>)
              withFw == IF deny.k = "absent" THEN base
                        ELSE IF deny.k = "empty" THEN AddEntry(base, StrN("firewall"), Map(<<>>, <<>>))
                        ELSE AddEntry(base, StrN("firewall"),
                                      Map(<<Addr(deny.b[1], deny.b[2])>>, <<List(<<StrN(deny.s)>>)>>))
              withVal == IF val.k = "absent" THEN withFw
                         ELSE IF val.k = "same" THEN AddEntry(withFw, StrN("value"), sens[a])
                         ELSE AddEntry(withFw, StrN("value"), val.n)
          IN hosts' = Append(hosts, withVal)
    /\ IF idx < Len(sh.addrs) THEN idx' = idx + 1 /\ stage' = stage ELSE idx' = 1 /\ stage' = "fw"
    /\ UNCHANGED <<sh, topo, exps, pes, sens, fw, scan>>

ConnPairs == PairsToSeq({<<a, b>> \in (0..sh.nsub) \X (0..sh.nsub) : a # b /\ topo[a][b] = 1})

FwStep ==
    /\ stage = "fw"
    /\ IF Len(ConnPairs) = 0 THEN fw' = fw
       ELSE \E ss \in SUBSET Rng(sh.srv) :
               fw' = Append(fw, <<ConnPairs[idx], List([i \in 1..Len(SubSeqOf(sh.srv, ss)) |-> StrN(SubSeqOf(sh.srv, ss)[i])])>>)
    /\ IF idx < Len(ConnPairs) THEN idx' = idx + 1 /\ stage' = stage ELSE idx' = 1 /\ stage' = "scan"
    /\ UNCHANGED <<sh, topo, exps, pes, sens, hosts, scan>>

Scan ==
    /\ stage = "scan"
    /\ \E c \in [1..4 -> ScanOptions] : scan' = c
    /\ stage' = "emit"
    /\ UNCHANGED <<sh, topo, exps, pes, sens, hosts, fw, idx>>

Doc ==
    LET n == sh.nsub
        sensAddrs == PairsToSeq(DOMAIN sens)
        core ==
          Map(<<StrN("subnets"), StrN("topology"), StrN("sensitive_hosts"), StrN("os"), StrN("services"),
                StrN("processes"), StrN("exploits"), StrN("privilege_escalation"), StrN("service_scan_cost"),
                StrN("os_scan_cost"), StrN("subnet_scan_cost"), StrN("process_scan_cost"),
                StrN("host_configurations"), StrN("firewall")>>,
              <<List([i \in 1..n |-> IntN(sh.sizes[i])]),
                List([i \in 1..(n + 1) |-> List([j \in 1..(n + 1) |-> IntN(topo[i - 1][j - 1])])]),
                Map([i \in 1..Len(sensAddrs) |-> Addr(sensAddrs[i][1], sensAddrs[i][2])],
                    [i \in 1..Len(sensAddrs) |-> sens[sensAddrs[i]]]),
                List([i \in 1..Len(sh.os) |-> StrN(sh.os[i])]),
                List([i \in 1..Len(sh.srv) |-> StrN(sh.srv[i])]),
                List([i \in 1..Len(sh.proc) |-> StrN(sh.proc[i])]),
                Map([i \in 1..Len(exps) |-> StrN("e" \o ToString(i))], exps),
                Map([i \in 1..Len(pes) |-> StrN("p" \o ToString(i))], pes),
                scan[1], scan[2], scan[3], scan[4],
                Map([i \in 1..Len(sh.addrs) |-> Addr(sh.addrs[i][1], sh.addrs[i][2])], hosts),
                Map([i \in 1..Len(fw) |-> Addr(fw[i][1][1], fw[i][1][2])], [i \in 1..Len(fw) |-> fw[i][2]])>>)
    IN IF sh.lim = 0 THEN core ELSE AddEntry(core, StrN("step_limit"), IntN(sh.lim))

Emit ==
    /\ stage = "emit"
    /\ PrintT(<<"DOC", ToJson(Doc)>>)
    /\ stage' = "done"
    /\ UNCHANGED <<sh, topo, exps, pes, sens, hosts, fw, scan, idx>>

Next == Shape \/ Topo \/ Exploit \/ Privesc \/ Sens \/ HostStep \/ FwStep \/ Scan \/ Emit

Spec == Init /\ [][Next]_vars

\* what the generator emits is valid by the specification's own rules
EmittedValid == stage = "emit" => Valid(Doc)

=============================================================================
