----------------------------- MODULE NASimProof -----------------------------
(***************************************************************************)
(* The inductive argument of NASimSym, machine-checked by TLAPS for        *)
(* scenarios of ANY size (NASimSym / Apalache: at most 4 subnets x 2       *)
(* hosts): the network-level invariants of C03 (reachable iff public or    *)
(* adjacent to a compromised host; compromised => discovered => reachable; *)
(* compromised iff access > 0) are inductive for the three state-changing  *)
(* effects of NASimCore!Trans, and every step is monotone (C04).           *)
(* Design level only: nothing here speaks about the code.                  *)
(***************************************************************************)
EXTENDS Integers, TLAPS

CONSTANTS Nodes,      \* subnets, 0 = the internet
          Conn,       \* connected pairs of subnets
          HostSet     \* host addresses <<subnet, id>>

ASSUME Scenario ==
    /\ 0 \in Nodes
    /\ Conn \subseteq Nodes \X Nodes
    /\ \A a \in Nodes : <<a, a>> \in Conn
    /\ \A a, b \in Nodes : <<a, b>> \in Conn => <<b, a>> \in Conn
    /\ HostSet \subseteq (Nodes \ {0}) \X Nat

VARIABLES comp, acc, disc, reach
vars == <<comp, acc, disc, reach>>

Connected(a, b) == <<a, b>> \in Conn
Public(s) == Connected(s, 0)

TypeOK ==
    /\ comp \in [HostSet -> BOOLEAN]
    /\ acc \in [HostSet -> 0..2]
    /\ disc \in [HostSet -> BOOLEAN]
    /\ reach \in [HostSet -> BOOLEAN]

ReachInv ==
    \A h \in HostSet :
       reach[h] <=> (Public(h[1]) \/ \E g \in HostSet : comp[g] /\ Connected(g[1], h[1]))
ChainInv == \A h \in HostSet : (comp[h] => disc[h]) /\ (disc[h] => reach[h])
AccInv == \A h \in HostSet : comp[h] <=> acc[h] > 0

IndInv == TypeOK /\ ReachInv /\ ChainInv /\ AccInv

Init ==
    /\ comp = [h \in HostSet |-> FALSE]
    /\ acc = [h \in HostSet |-> 0]
    /\ disc = [h \in HostSet |-> Public(h[1])]
    /\ reach = [h \in HostSet |-> Public(h[1])]

Exploit(t, grant) ==
    /\ reach[t] /\ disc[t]
    /\ comp' = [comp EXCEPT ![t] = TRUE]
    /\ acc' = [acc EXCEPT ![t] = IF acc[t] >= grant THEN acc[t] ELSE grant]
    /\ reach' = [h \in HostSet |-> reach[h] \/ Connected(t[1], h[1])]
    /\ UNCHANGED disc

Privesc(t, grant) ==
    /\ reach[t] /\ disc[t] /\ comp[t]
    /\ acc' = [acc EXCEPT ![t] = IF acc[t] >= grant THEN acc[t] ELSE grant]
    /\ UNCHANGED <<comp, disc, reach>>

SubnetScan(t) ==
    /\ reach[t] /\ disc[t] /\ comp[t] /\ acc[t] >= 1
    /\ disc' = [h \in HostSet |-> disc[h] \/ Connected(t[1], h[1])]
    /\ UNCHANGED <<comp, acc, reach>>

Next ==
    \/ \E t \in HostSet : \E g \in 1..2 : Exploit(t, g) \/ Privesc(t, g)
    \/ \E t \in HostSet : SubnetScan(t)

Spec == Init /\ [][Next]_vars

Monotone ==
    \A h \in HostSet :
       /\ comp[h] => comp'[h]
       /\ reach[h] => reach'[h]
       /\ disc[h] => disc'[h]
       /\ acc'[h] >= acc[h]

LEMMA InitInv == Init => IndInv
  BY Scenario DEF Init, IndInv, TypeOK, ReachInv, ChainInv, AccInv, Public, Connected

LEMMA ExploitInv ==
    ASSUME IndInv, NEW t \in HostSet, NEW g \in 1..2, Exploit(t, g)
    PROVE  IndInv' /\ Monotone
<1>1. TypeOK'
  BY DEF IndInv, TypeOK, Exploit
<1>2. ReachInv'
  BY Scenario DEF IndInv, TypeOK, ReachInv, Exploit, Public, Connected
<1>3. ChainInv'
  BY Scenario DEF IndInv, TypeOK, ChainInv, Exploit, Connected
<1>4. AccInv'
  BY DEF IndInv, TypeOK, AccInv, Exploit
<1>5. Monotone
  BY DEF IndInv, TypeOK, Monotone, Exploit
<1> QED BY <1>1, <1>2, <1>3, <1>4, <1>5 DEF IndInv

LEMMA PrivescInv ==
    ASSUME IndInv, NEW t \in HostSet, NEW g \in 1..2, Privesc(t, g)
    PROVE  IndInv' /\ Monotone
<1>1. TypeOK'
  BY DEF IndInv, TypeOK, Privesc
<1>2. ReachInv'
  BY DEF IndInv, TypeOK, ReachInv, Privesc, Public, Connected
<1>3. ChainInv'
  BY DEF IndInv, TypeOK, ChainInv, Privesc
<1>4. AccInv'
  BY DEF IndInv, TypeOK, AccInv, Privesc
<1>5. Monotone
  BY DEF IndInv, TypeOK, Monotone, Privesc
<1> QED BY <1>1, <1>2, <1>3, <1>4, <1>5 DEF IndInv

LEMMA ScanInv ==
    ASSUME IndInv, NEW t \in HostSet, SubnetScan(t)
    PROVE  IndInv' /\ Monotone
<1>1. TypeOK'
  BY DEF IndInv, TypeOK, SubnetScan
<1>2. ReachInv'
  BY DEF IndInv, TypeOK, ReachInv, SubnetScan, Public, Connected
<1>3. ChainInv'
  BY Scenario DEF IndInv, TypeOK, ChainInv, ReachInv, SubnetScan, Public, Connected
<1>4. AccInv'
  BY DEF IndInv, TypeOK, AccInv, SubnetScan
<1>5. Monotone
  BY DEF IndInv, TypeOK, Monotone, SubnetScan
<1> QED BY <1>1, <1>2, <1>3, <1>4, <1>5 DEF IndInv

LEMMA NextInv == IndInv /\ [Next]_vars => IndInv'
<1> SUFFICES ASSUME IndInv, [Next]_vars PROVE IndInv'
  OBVIOUS
<1>1. CASE UNCHANGED vars
  BY <1>1 DEF vars, IndInv, TypeOK, ReachInv, ChainInv, AccInv, Public, Connected
<1>2. CASE Next
  BY <1>2, ExploitInv, PrivescInv, ScanInv DEF Next
<1> QED BY <1>1, <1>2

THEOREM Safety == Spec => []IndInv
<1>1. Init => IndInv  BY InitInv
<1>2. IndInv /\ [Next]_vars => IndInv'  BY NextInv
<1> QED BY <1>1, <1>2, PTL DEF Spec

THEOREM StepsMonotone == IndInv /\ Next => Monotone
  BY ExploitInv, PrivescInv, ScanInv DEF Next
=============================================================================
