----------------------------- MODULE NASimMulti -----------------------------
(***************************************************************************)
(* C19: several environments in one process.                               *)
(*                                                                         *)
(* The single-environment behaviour is NASimEnv's; this module adds what   *)
(* is specific to coexistence: the SCHEDULE (interleaving of creations,    *)
(* resets and steps of the environments), the frame condition (an action   *)
(* of one environment changes nothing of another), and the bookkeeping of  *)
(* the known finding KF_ForeignLayout.                                     *)
(*                                                                         *)
(* Env slots hold a scenario id (0 = not built).  LayoutOf[s] identifies   *)
(* the vector layout of scenario s (address bounds + ordered OS / service  *)
(* / process names).  TLC enumerates every schedule up to MaxDepth; each   *)
(* complete schedule is printed and executed on the real implementation,   *)
(* every event being validated by the single-environment trace monitor of  *)
(* its own scenario ("as if alone") plus the frame clauses of C19.         *)
(***************************************************************************)
EXTENDS Integers, Sequences, FiniteSets, TLC

CONSTANTS Envs,        \* e.g. {1, 2}
          ScnOf,       \* env slot -> set of scenario ids that may be built there
          LayoutOf,    \* scenario id -> layout id
          MaxDepth

VARIABLES built,       \* env -> scenario id (0: none)
          ver,         \* env -> abstract version of its state (bumped by its own actions only)
          lastLayout,  \* layout of the most recently built environment (0: none)
          tainted,     \* env -> it has acted while its layout was not the most recently built one
          hist         \* the schedule so far: sequence of <<kind, env, scenario, foreign, tainted>>

vars == <<built, ver, lastLayout, tainted, hist>>

Init ==
    /\ built = [e \in Envs |-> 0]
    /\ ver = [e \in Envs |-> 0]
    /\ lastLayout = 0
    /\ tainted = [e \in Envs |-> FALSE]
    /\ hist = <<>>

Create(e, s) ==
    /\ s \in ScnOf[e]
    /\ built' = [built EXCEPT ![e] = s]
    /\ ver' = [ver EXCEPT ![e] = 1]
    /\ lastLayout' = LayoutOf[s]
    /\ tainted' = [tainted EXCEPT ![e] = FALSE]
    /\ hist' = Append(hist, <<"create", e, s, FALSE, FALSE>>)

\* signature of the known finding: the acting environment's layout differs from the layout of the most
\* recently built environment, or it has already acted in that situation
Foreign(e) == LayoutOf[built[e]] # lastLayout
KF_ForeignLayout(e) == Foreign(e) \/ tainted[e]

Act(kind, e) ==
    /\ built[e] # 0
    /\ ver' = [ver EXCEPT ![e] = @ + 1]
    /\ tainted' = [tainted EXCEPT ![e] = @ \/ Foreign(e)]
    /\ hist' = Append(hist, <<kind, e, built[e], Foreign(e), KF_ForeignLayout(e)>>)
    /\ UNCHANGED <<built, lastLayout>>

Next ==
    /\ Len(hist) < MaxDepth
    /\ \E e \in Envs : \/ \E s \in ScnOf[e] : Create(e, s)
                       \/ Act("reset", e)
                       \/ Act("step", e)

Spec == Init /\ [][Next]_vars

\* frame condition at design level: an action of e leaves every other environment's state version alone
Frame == [][\A e \in Envs : (ver'[e] # ver[e]) =>
              (\A f \in Envs \ {e} : ver'[f] = ver[f] /\ built'[f] = built[f])]_vars

\* every complete schedule is handed to the harness
Emit == Len(hist) = MaxDepth => PrintT(<<"SCHEDULE", hist>>)

=============================================================================
