--------------------------- MODULE ScenarioFormat ---------------------------
(***************************************************************************)
(* The documented YAML scenario format (docs/source/tutorials/             *)
(* creating_scenarios.rst) as predicates over TAGGED DOCUMENT TREES, the   *)
(* scenario a valid document denotes (Interp), and one Break operator per  *)
(* rule of the C18 catalogue.                                              *)
(*                                                                         *)
(* A node is a record with a tag t:                                        *)
(*   [t |-> "map",  k |-> <<key nodes>>, v |-> <<value nodes>>]             *)
(*   [t |-> "list", v |-> <<nodes>>]                                       *)
(*   [t |-> "int",  v |-> n]            an integer                         *)
(*   [t |-> "num",  v |-> micro]        a float, in micro-units            *)
(*   [t |-> "str",  v |-> s]                                               *)
(*   [t |-> "addr", v |-> <<a, b>>, sp |-> spelling]   a "(a, b)" key      *)
(*   [t |-> "bool", v |-> b]   [t |-> "null"]                              *)
(* Predicates always look at the tag before the value, so ill-typed        *)
(* documents evaluate to FALSE instead of raising a TLC type error.        *)
(***************************************************************************)
EXTENDS Integers, Sequences, FiniteSets, FiniteSetsExt, TLC

M == 1000000                      \* micro-units per unit
NoOS == "<none>"

StrN(s) == [t |-> "str", v |-> s]
IntN(n) == [t |-> "int", v |-> n]
NumN(u) == [t |-> "num", v |-> u]
Addr(a, b) == [t |-> "addr", v |-> <<a, b>>, sp |-> "canonical"]
AddrTight(a, b) == [t |-> "addr", v |-> <<a, b>>, sp |-> "tight"]
\* other spellings that evaluate to the same address: "(a,b)", "(+a, b)", "(a, b,)", "a, b"
Spellings == <<"tight", "plus", "trailing", "bare">>
AllSpellings == <<"canonical", "tight", "plus", "trailing", "bare">>
\* the i-th spelling that differs from spelling `not` (a key spelled the same way would be the same YAML key)
AddrSpelled(a, b, i, not) ==
    [t |-> "addr", v |-> <<a, b>>, sp |-> SelectSeq(AllSpellings, LAMBDA s : s # not)[i]]
List(s) == [t |-> "list", v |-> s]
Map(ks, vs) == [t |-> "map", k |-> ks, v |-> vs]
Null == [t |-> "null"]
NaN == [t |-> "nan"]          \* YAML .nan: a float that is not a number

IsMap(n) == n.t = "map"
IsList(n) == n.t = "list"
IsInt(n) == n.t = "int"
IsNumber(n) == n.t \in {"int", "num"}
IsStr(n) == n.t = "str"
IsAddr(n) == n.t = "addr"
Micro(n) == IF n.t = "int" THEN n.v * M ELSE n.v
Rng(s) == {s[i] : i \in 1..Len(s)}

KeyIdx(m, name) == {i \in 1..Len(m.k) : m.k[i].t = "str" /\ m.k[i].v = name}
Has(m, name) == KeyIdx(m, name) # {}
Get(m, name) == m.v[Min(KeyIdx(m, name))]
AddrIdx(m, a) == {i \in 1..Len(m.k) : m.k[i].t = "addr" /\ m.k[i].v = a}
HasAddr(m, a) == AddrIdx(m, a) # {}
GetAddr(m, a) == m.v[Min(AddrIdx(m, a))]
StrList(n) == IsList(n) /\ \A i \in 1..Len(n.v) : IsStr(n.v[i])
Names(n) == [i \in 1..Len(n.v) |-> n.v[i].v]
NoDup(s) == Cardinality(Rng(s)) = Len(s)

RequiredSections ==
    <<"subnets", "topology", "sensitive_hosts", "os", "services", "processes", "exploits",
      "privilege_escalation", "service_scan_cost", "os_scan_cost", "subnet_scan_cost", "process_scan_cost",
      "host_configurations", "firewall">>
SectionType(name) ==
    CASE name \in {"subnets", "topology", "os", "services", "processes"} -> {"list"}
      [] name \in {"sensitive_hosts", "exploits", "privilege_escalation", "host_configurations", "firewall"} -> {"map"}
      [] name = "step_limit" -> {"int"}
      [] OTHER -> {"int", "num"}
KnownSections == Rng(RequiredSections) \cup {"step_limit"}

---------------------------------------------------------------------------
(* Rules, in dependency order                                              *)

SectionsOK(d) ==
    /\ IsMap(d)
    /\ \A i \in 1..Len(d.k) : IsStr(d.k[i]) /\ d.k[i].v \in KnownSections
    /\ \A s \in Rng(RequiredSections) : Has(d, s)
    /\ \A i \in 1..Len(d.k) : d.v[i].t \in SectionType(d.k[i].v)

Sizes(d) == Get(d, "subnets").v
NSubD(d) == Len(Sizes(d)) + 1                    \* with the internet
SubnetsOK(d) ==
    LET s == Sizes(d) IN
    /\ Len(s) > 0
    /\ \A i \in 1..Len(s) : IsInt(s[i]) /\ s[i].v > 0
SizeOf(d, sub) == IF sub = 0 THEN 1 ELSE Sizes(d)[sub].v
ValidAddr(d, a) == a[1] >= 1 /\ a[1] < NSubD(d) /\ a[2] >= 0 /\ a[2] < SizeOf(d, a[1])
AllAddrs(d) == {<<s, h>> : s \in 1..(NSubD(d) - 1), h \in 0..(Max({Sizes(d)[i].v : i \in 1..Len(Sizes(d))}) - 1)}
HostAddrs(d) == {a \in AllAddrs(d) : ValidAddr(d, a)}

TopologyOK(d) ==
    LET t == Get(d, "topology").v  n == NSubD(d) IN
    /\ Len(t) = n
    /\ \A i \in 1..Len(t) :
          /\ IsList(t[i]) /\ Len(t[i].v) = n
          /\ \A j \in 1..Len(t[i].v) : IsInt(t[i].v[j]) /\ t[i].v[j].v \in {0, 1}
TopoD(d) == [i \in 1..NSubD(d) |-> [j \in 1..NSubD(d) |-> Get(d, "topology").v[i].v[j].v]]
ConnD(d, a, b) == TopoD(d)[a + 1][b + 1] = 1

NameListOK(n) == StrList(n) /\ Len(n.v) > 0 /\ NoDup(Names(n))
NamesOK(d) == NameListOK(Get(d, "os")) /\ NameListOK(Get(d, "services")) /\ NameListOK(Get(d, "processes"))
OSD(d) == Names(Get(d, "os"))
SrvD(d) == Names(Get(d, "services"))
ProcD(d) == Names(Get(d, "processes"))

SensOK(d) ==
    LET m == Get(d, "sensitive_hosts") IN
    /\ Len(m.k) > 0
    /\ \A i \in 1..Len(m.k) :
          /\ IsAddr(m.k[i]) /\ ValidAddr(d, m.k[i].v)
          /\ IsNumber(m.v[i]) /\ Micro(m.v[i]) > 0
    /\ \A i, j \in 1..Len(m.k) : i # j => m.k[i].v # m.k[j].v

IsNoneOS(n) == IsStr(n) /\ n.v \in {"none", "None", "NONE"}
AccessOK(n) == (IsStr(n) /\ n.v \in {"user", "root"}) \/ (IsInt(n) /\ n.v \in {1, 2})
AccessOf(n) == IF IsStr(n) THEN (IF n.v = "user" THEN 1 ELSE 2) ELSE n.v

ActionDefOK(d, e, what, pool) ==
    /\ IsMap(e)
    /\ \A f \in {what, "os", "prob", "cost", "access"} : Has(e, f)
    /\ IsStr(Get(e, what)) /\ Get(e, what).v \in Rng(pool)
    /\ IsStr(Get(e, "os")) /\ (IsNoneOS(Get(e, "os")) \/ Get(e, "os").v \in Rng(OSD(d)))
    /\ IsNumber(Get(e, "prob")) /\ Micro(Get(e, "prob")) >= 0 /\ Micro(Get(e, "prob")) <= M
    /\ IsNumber(Get(e, "cost")) /\ Micro(Get(e, "cost")) > 0
    /\ AccessOK(Get(e, "access"))

ExploitsOK(d) ==
    LET m == Get(d, "exploits") IN
    \A i \in 1..Len(m.k) : ActionDefOK(d, m.v[i], "service", SrvD(d))
PrivescsOK(d) ==
    LET m == Get(d, "privilege_escalation") IN
    \A i \in 1..Len(m.k) : ActionDefOK(d, m.v[i], "process", ProcD(d))

ScanNames == <<"service_scan_cost", "os_scan_cost", "subnet_scan_cost", "process_scan_cost">>
ScanCostsOK(d) == \A s \in Rng(ScanNames) : Micro(Get(d, s)) >= 0

SrvListOK(d, n) == StrList(n) /\ NoDup(Names(n)) /\ Rng(Names(n)) \subseteq Rng(SrvD(d))

HostFwOK(d, f) ==
    /\ IsMap(f)
    /\ \A i \in 1..Len(f.k) : IsAddr(f.k[i]) /\ ValidAddr(d, f.k[i].v) /\ SrvListOK(d, f.v[i])

HostCfgOK(d, a, c) ==
    /\ IsMap(c)
    /\ \A f \in {"os", "services", "processes"} : Has(c, f)
    /\ SrvListOK(d, Get(c, "services"))
    /\ LET p == Get(c, "processes") IN StrList(p) /\ NoDup(Names(p)) /\ Rng(Names(p)) \subseteq Rng(ProcD(d))
    /\ IsStr(Get(c, "os")) /\ Get(c, "os").v \in Rng(OSD(d))
    /\ Has(c, "firewall") => HostFwOK(d, Get(c, "firewall"))
    /\ Has(c, "value") =>
          /\ IsNumber(Get(c, "value"))
          /\ HasAddr(Get(d, "sensitive_hosts"), a)
                => Micro(Get(c, "value")) = Micro(GetAddr(Get(d, "sensitive_hosts"), a))

HostsOK(d) ==
    LET m == Get(d, "host_configurations") IN
    /\ \A i \in 1..Len(m.k) : IsAddr(m.k[i])
    /\ Len(m.k) = Cardinality(HostAddrs(d))                 \* none superfluous
    /\ \A a \in HostAddrs(d) : HasAddr(m, a)                \* none missing
    /\ \A i \in 1..Len(m.k) : ValidAddr(d, m.k[i].v) => HostCfgOK(d, m.k[i].v, m.v[i])

FirewallOK(d) ==
    LET m == Get(d, "firewall") IN
    /\ \A i \in 1..Len(m.k) : IsAddr(m.k[i])
    /\ \A a, b \in 0..(NSubD(d) - 1) : (a # b /\ ConnD(d, a, b)) => HasAddr(m, <<a, b>>) /\ HasAddr(m, <<b, a>>)
    /\ \A i \in 1..Len(m.k) : SrvListOK(d, m.v[i])

StepLimitOK(d) == Has(d, "step_limit") => Get(d, "step_limit").v > 0

Groups == <<"sections", "subnets", "topology", "names", "sensitive_hosts", "exploits", "privilege_escalation",
            "scan_costs", "host_configurations", "firewall", "step_limit">>
GroupOK(g, d) ==
    CASE g = "sections" -> SectionsOK(d)
      [] g = "subnets" -> SubnetsOK(d)
      [] g = "topology" -> TopologyOK(d)
      [] g = "names" -> NamesOK(d)
      [] g = "sensitive_hosts" -> SensOK(d)
      [] g = "exploits" -> ExploitsOK(d)
      [] g = "privilege_escalation" -> PrivescsOK(d)
      [] g = "scan_costs" -> ScanCostsOK(d)
      [] g = "host_configurations" -> HostsOK(d)
      [] g = "firewall" -> FirewallOK(d)
      [] g = "step_limit" -> StepLimitOK(d)

\* index of the first failing group (0 = the document is valid); later groups are only evaluated
\* when all earlier ones hold, which is what keeps ill-typed documents from raising type errors
RECURSIVE FirstBad(_, _)
FirstBad(d, i) == IF i > Len(Groups) THEN 0 ELSE IF GroupOK(Groups[i], d) THEN FirstBad(d, i + 1) ELSE i
FailingGroup(d) == LET i == FirstBad(d, 1) IN IF i = 0 THEN "none" ELSE Groups[i]
Valid(d) == FirstBad(d, 1) = 0

---------------------------------------------------------------------------
(* Interp: the scenario a VALID document denotes                           *)

OsName(n) == IF IsNoneOS(n) THEN NoOS ELSE n.v
ActDefs(d, sec, what) ==
    LET m == Get(d, sec) IN
    [i \in 1..Len(m.k) |->
        [name |-> m.k[i].v, target |-> Get(m.v[i], what).v, os |-> OsName(Get(m.v[i], "os")),
         prob |-> Micro(Get(m.v[i], "prob")), cost |-> Micro(Get(m.v[i], "cost")),
         access |-> AccessOf(Get(m.v[i], "access"))]]

HostValue(d, a, c) ==
    IF HasAddr(Get(d, "sensitive_hosts"), a) THEN Micro(GetAddr(Get(d, "sensitive_hosts"), a))
    ELSE IF Has(c, "value") THEN Micro(Get(c, "value")) ELSE 0

HostDeny(c) ==
    IF ~Has(c, "firewall") THEN <<>>
    ELSE LET f == Get(c, "firewall") IN
         [a \in {f.k[i].v : i \in 1..Len(f.k)} |-> Rng(Names(GetAddr(f, a)))]

Interp(d) ==
    LET hc == Get(d, "host_configurations")
        fw == Get(d, "firewall")
        sh == Get(d, "sensitive_hosts") IN
    [subnets |-> <<1>> \o [i \in 1..Len(Sizes(d)) |-> Sizes(d)[i].v],
     topology |-> TopoD(d),
     os |-> OSD(d), services |-> SrvD(d), processes |-> ProcD(d),
     sens |-> [a \in {sh.k[i].v : i \in 1..Len(sh.k)} |-> Micro(GetAddr(sh, a))],
     exploits |-> ActDefs(d, "exploits", "service"),
     privescs |-> ActDefs(d, "privilege_escalation", "process"),
     scan |-> [i \in 1..4 |-> Micro(Get(d, ScanNames[i]))],
     hostorder |-> [i \in 1..Len(hc.k) |-> hc.k[i].v],
     hosts |-> [a \in {hc.k[i].v : i \in 1..Len(hc.k)} |->
                 LET c == GetAddr(hc, a) IN
                 [os |-> Get(c, "os").v, srvs |-> Rng(Names(Get(c, "services"))),
                  procs |-> Rng(Names(Get(c, "processes"))), value |-> HostValue(d, a, c),
                  deny |-> HostDeny(c)]],
     fw |-> [p \in {fw.k[i].v : i \in 1..Len(fw.k)} |-> Rng(Names(GetAddr(fw, p)))],
     step_limit |-> IF Has(d, "step_limit") THEN Get(d, "step_limit").v ELSE -1]

---------------------------------------------------------------------------
(* Tree surgery used by the Break operators                                *)

SetKey(m, name, node) ==
    IF Has(m, name) THEN [m EXCEPT !.v[Min(KeyIdx(m, name))] = node]
    ELSE [m EXCEPT !.k = Append(@, StrN(name)), !.v = Append(@, node)]
DropIdx(s, i) == [j \in 1..(Len(s) - 1) |-> IF j < i THEN s[j] ELSE s[j + 1]]
DropKey(m, name) == LET i == Min(KeyIdx(m, name)) IN [m EXCEPT !.k = DropIdx(@, i), !.v = DropIdx(@, i)]
DropAt(m, i) == [m EXCEPT !.k = DropIdx(@, i), !.v = DropIdx(@, i)]
SetAt(m, i, node) == [m EXCEPT !.v[i] = node]
AddEntry(m, key, node) == [m EXCEPT !.k = Append(@, key), !.v = Append(@, node)]
InSection(d, sec, f(_)) == SetKey(d, sec, f(Get(d, sec)))
WrongType(sec) == IF "list" \in SectionType(sec) THEN Map(<<>>, <<>>)
                  ELSE IF "map" \in SectionType(sec) THEN List(<<>>)
                  ELSE StrN("one")

\* The catalogue of single-rule violations (C18).  NPos(r, d) = number of positions at which rule r
\* can be broken in the valid document d; Break(r, p, d) = the document with rule r broken at position p.
Rules ==
    <<"section_missing", "section_unknown", "section_mistyped",
      "subnets_empty", "subnet_nonpositive",
      "topology_row_missing", "topology_row_short", "topology_bad_entry",
      "os_empty", "os_duplicate", "services_empty", "services_duplicate", "processes_empty", "processes_duplicate",
      "sensitive_bad_subnet", "sensitive_bad_host", "sensitive_duplicate", "sensitive_nonpositive",
      "exploit_missing_field", "exploit_unknown_service", "exploit_unknown_os", "exploit_prob_high",
      "exploit_prob_negative", "exploit_cost_nonpositive", "exploit_bad_access",
      "privesc_missing_field", "privesc_unknown_process", "privesc_unknown_os", "privesc_prob_high",
      "privesc_prob_negative", "privesc_cost_nonpositive", "privesc_bad_access",
      "scan_cost_negative",
      "host_missing", "host_superfluous", "host_unknown_service", "host_duplicate_service",
      "host_unknown_process", "host_duplicate_process", "host_unknown_os",
      "host_firewall_not_map", "host_firewall_bad_address", "host_firewall_unknown_service",
      "host_value_nonnumeric", "host_value_contradicts_sensitive",
      "firewall_rule_missing", "firewall_rule_not_list", "firewall_rule_duplicate_service",
      "firewall_rule_unknown_service",
      "step_limit_zero", "step_limit_negative">>

GroupOfRule(r) ==
    CASE r \in {"section_missing", "section_unknown", "section_mistyped"} -> "sections"
      [] r \in {"subnets_empty", "subnet_nonpositive"} -> "subnets"
      [] r \in {"topology_row_missing", "topology_row_short", "topology_bad_entry"} -> "topology"
      [] r \in {"os_empty", "os_duplicate", "services_empty", "services_duplicate", "processes_empty",
                "processes_duplicate"} -> "names"
      [] r \in {"sensitive_bad_subnet", "sensitive_bad_host", "sensitive_duplicate", "sensitive_nonpositive"}
           -> "sensitive_hosts"
      [] r \in {"exploit_missing_field", "exploit_unknown_service", "exploit_unknown_os", "exploit_prob_high",
                "exploit_prob_negative", "exploit_cost_nonpositive", "exploit_bad_access"} -> "exploits"
      [] r \in {"privesc_missing_field", "privesc_unknown_process", "privesc_unknown_os", "privesc_prob_high",
                "privesc_prob_negative", "privesc_cost_nonpositive", "privesc_bad_access"} -> "privilege_escalation"
      [] r = "scan_cost_negative" -> "scan_costs"
      [] r \in {"firewall_rule_missing", "firewall_rule_not_list", "firewall_rule_duplicate_service",
                "firewall_rule_unknown_service"} -> "firewall"
      [] r \in {"step_limit_zero", "step_limit_negative"} -> "step_limit"
      [] OTHER -> "host_configurations"

NE(d) == Len(Get(d, "exploits").k)
NP(d) == Len(Get(d, "privilege_escalation").k)
NHC(d) == Len(Get(d, "host_configurations").k)
NFW(d) == Len(Get(d, "firewall").k)
NSens(d) == Len(Get(d, "sensitive_hosts").k)
ActFields(what) == <<what, "os", "prob", "cost", "access">>

\* host configurations that carry a firewall / a non-empty rule (positions for the firewall breakers)
HostsWithFw(d) == LET m == Get(d, "host_configurations") IN
                  {i \in 1..Len(m.k) : Has(m.v[i], "firewall") /\ Len(Get(m.v[i], "firewall").k) > 0}
NthOf(S, p) == CHOOSE x \in S : Cardinality({y \in S : y < x}) = p - 1
SensHostIdx(d) == LET m == Get(d, "host_configurations") IN
                  {i \in 1..Len(m.k) : HasAddr(Get(d, "sensitive_hosts"), m.k[i].v)}
\* the rules the topology requires (a rule between subnets that are not connected is superfluous but allowed)
RequiredRules(d) ==
    LET m == Get(d, "firewall") IN
    {i \in 1..NFW(d) : m.k[i].t = "addr" /\ (ConnD(d, m.k[i].v[1], m.k[i].v[2]) \/ ConnD(d, m.k[i].v[2], m.k[i].v[1]))}
NonEmptyRules(d) == {i \in 1..NFW(d) : Len(Get(d, "firewall").v[i].v) > 0}

NPos(r, d) ==
    CASE r = "section_missing" -> Len(RequiredSections)
      [] r = "section_unknown" -> 1
      [] r = "section_mistyped" -> Len(RequiredSections) + 1
      [] r \in {"subnets_empty", "os_empty", "services_empty", "processes_empty", "os_duplicate",
                "services_duplicate", "processes_duplicate", "topology_row_missing"} -> 1
      [] r = "sensitive_duplicate" -> Len(Spellings)
      [] r = "subnet_nonpositive" -> 2 * Len(Sizes(d))
      [] r \in {"topology_row_short", "topology_bad_entry"} -> NSubD(d)
      [] r \in {"sensitive_bad_subnet", "sensitive_bad_host", "sensitive_nonpositive"} -> NSens(d)
      [] r = "exploit_missing_field" -> 5 * NE(d)
      [] r \in {"exploit_unknown_service", "exploit_unknown_os", "exploit_prob_negative",
                "exploit_bad_access"} -> NE(d)
      [] r \in {"exploit_prob_high", "exploit_cost_nonpositive"} -> 2 * NE(d)     \* second variant: not a number
      [] r \in {"privesc_prob_high", "privesc_cost_nonpositive"} -> 2 * NP(d)
      [] r = "privesc_missing_field" -> 5 * NP(d)
      [] r \in {"privesc_unknown_process", "privesc_unknown_os", "privesc_prob_negative",
                "privesc_bad_access"} -> NP(d)
      [] r = "scan_cost_negative" -> 4
      [] r \in {"host_missing", "host_unknown_service", "host_duplicate_service", "host_unknown_process",
                "host_duplicate_process", "host_firewall_not_map",
                "host_firewall_unknown_service"} -> NHC(d)
      [] r = "host_unknown_os" -> 2 * NHC(d)             \* an undeclared name / no OS at all (null)
      [] r \in {"host_value_nonnumeric", "host_firewall_bad_address"} -> 4 * NHC(d)
      [] r = "host_superfluous" -> 1
      [] r = "host_value_contradicts_sensitive" -> 3 * Cardinality(SensHostIdx(d))
      [] r = "firewall_rule_missing" -> Cardinality(RequiredRules(d))     \* a superfluous rule may be dropped
      [] r \in {"firewall_rule_not_list", "firewall_rule_unknown_service"} -> NFW(d)
      [] r = "firewall_rule_duplicate_service" -> Cardinality(NonEmptyRules(d))
      [] r = "step_limit_zero" -> 2                        \* 0 / a fractional number (2.5)
      [] r = "step_limit_negative" -> 1

BreakAct(d, sec, what, r, p) ==
    LET m == Get(d, sec)
        kind == IF sec = "exploits" THEN "exploit" ELSE "privesc"
        two == r \in {kind \o "_prob_high", kind \o "_cost_nonpositive"}
        nan == two /\ (p - 1) % 2 = 1
        i == IF r = kind \o "_missing_field" THEN ((p - 1) \div 5) + 1 ELSE IF two THEN ((p - 1) \div 2) + 1 ELSE p
        e == m.v[i]
        e2 == CASE r = kind \o "_missing_field" -> DropKey(e, ActFields(what)[((p - 1) % 5) + 1])
                [] r \in {"exploit_unknown_service", "privesc_unknown_process"} -> SetKey(e, what, StrN("zz_unknown"))
                [] r = kind \o "_unknown_os" -> SetKey(e, "os", StrN("zz_unknown_os"))
                [] r = kind \o "_prob_high" -> SetKey(e, "prob", IF nan THEN NaN ELSE NumN(1500000))
                [] r = kind \o "_prob_negative" -> SetKey(e, "prob", NumN(-100000))
                [] r = kind \o "_cost_nonpositive" -> SetKey(e, "cost", IF nan THEN NaN ELSE IntN(0))
                [] r = kind \o "_bad_access" -> SetKey(e, "access", IF p % 2 = 0 THEN IntN(3) ELSE StrN("admin"))
    IN SetKey(d, sec, SetAt(m, i, e2))

BreakHost(d, r, p0) ==
    LET m == Get(d, "host_configurations")
        p == IF r \in {"host_value_nonnumeric", "host_firewall_bad_address"} THEN ((p0 - 1) \div 4) + 1
             ELSE IF r = "host_unknown_os" THEN ((p0 - 1) \div 2) + 1 ELSE p0
        variant == IF r = "host_unknown_os" THEN (p0 - 1) % 2 ELSE (p0 - 1) % 4
        c == m.v[p]
        srv == Get(c, "services")
        prc == Get(c, "processes")
        anyAddr == m.k[1]
        c2 == CASE r = "host_unknown_service" -> SetKey(c, "services", List(Append(srv.v, StrN("zz_unknown"))))
                [] r = "host_duplicate_service" -> SetKey(c, "services", List(Append(srv.v, srv.v[1])))
                [] r = "host_unknown_process" -> SetKey(c, "processes", List(Append(prc.v, StrN("zz_unknown"))))
                [] r = "host_duplicate_process" ->
                     SetKey(c, "processes", List(<<StrN(ProcD(d)[1]), StrN(ProcD(d)[1])>>))
                [] r = "host_unknown_os" -> SetKey(c, "os", IF variant = 0 THEN StrN("zz_unknown_os") ELSE Null)
                [] r = "host_firewall_not_map" -> SetKey(c, "firewall", List(<<StrN(SrvD(d)[1])>>))
                [] r = "host_firewall_bad_address" ->
                     \* subnet too large / negative subnet (Python would wrap it) / the internet / host too large
                     SetKey(c, "firewall",
                            Map(<<CASE variant = 0 -> Addr(NSubD(d) + 3, 0) [] variant = 1 -> Addr(-1, 0)
                                    [] variant = 2 -> Addr(0, 0) [] OTHER -> Addr(1, SizeOf(d, 1) + 5)>>,
                                <<List(<<StrN(SrvD(d)[1])>>)>>))
                [] r = "host_firewall_unknown_service" ->
                     SetKey(c, "firewall", Map(<<anyAddr>>, <<List(<<StrN("zz_unknown")>>)>>))
                [] r = "host_value_nonnumeric" ->
                     SetKey(c, "value", CASE variant = 0 -> StrN("high") [] variant = 1 -> Null
                                          [] variant = 2 -> StrN("") [] OTHER -> List(<<>>))
    IN SetKey(d, "host_configurations", SetAt(m, p, c2))

Break(r, p, d) ==
    CASE r = "section_missing" -> DropKey(d, RequiredSections[p])
      [] r = "section_unknown" -> AddEntry(d, StrN("zz_unknown_section"), IntN(1))
      [] r = "section_mistyped" ->
           IF p <= Len(RequiredSections) THEN SetKey(d, RequiredSections[p], WrongType(RequiredSections[p]))
           ELSE SetKey(d, "step_limit", StrN("many"))
      [] r = "subnets_empty" -> SetKey(d, "subnets", List(<<>>))
      [] r = "subnet_nonpositive" ->
           LET i == ((p - 1) \div 2) + 1 IN
           SetKey(d, "subnets", List([Sizes(d) EXCEPT ![i] = IF p % 2 = 0 THEN IntN(0) ELSE IntN(-1)]))
      [] r = "topology_row_missing" ->
           SetKey(d, "topology", List(DropIdx(Get(d, "topology").v, NSubD(d))))
      [] r = "topology_row_short" ->
           LET t == Get(d, "topology").v IN
           SetKey(d, "topology", List([t EXCEPT ![p] = List(DropIdx(t[p].v, NSubD(d)))]))
      [] r = "topology_bad_entry" ->
           LET t == Get(d, "topology").v IN
           SetKey(d, "topology", List([t EXCEPT ![p] = List([t[p].v EXCEPT ![p] = IntN(2)])]))
      [] r = "os_empty" -> SetKey(d, "os", List(<<>>))
      [] r = "services_empty" -> SetKey(d, "services", List(<<>>))
      [] r = "processes_empty" -> SetKey(d, "processes", List(<<>>))
      [] r = "os_duplicate" -> SetKey(d, "os", List(Append(Get(d, "os").v, Get(d, "os").v[1])))
      [] r = "services_duplicate" -> SetKey(d, "services", List(Append(Get(d, "services").v, Get(d, "services").v[1])))
      [] r = "processes_duplicate" ->
           SetKey(d, "processes", List(Append(Get(d, "processes").v, Get(d, "processes").v[1])))
      [] r = "sensitive_bad_subnet" ->
           LET m == Get(d, "sensitive_hosts") IN
           SetKey(d, "sensitive_hosts", [m EXCEPT !.k[p] = Addr(NSubD(d) + 2, 0)])
      [] r = "sensitive_bad_host" ->
           LET m == Get(d, "sensitive_hosts") IN
           SetKey(d, "sensitive_hosts", [m EXCEPT !.k[p] = Addr(m.k[p].v[1], SizeOf(d, m.k[p].v[1]))])
      [] r = "sensitive_duplicate" ->
           LET m == Get(d, "sensitive_hosts") IN
           SetKey(d, "sensitive_hosts", AddEntry(m, AddrSpelled(m.k[1].v[1], m.k[1].v[2], p, m.k[1].sp), m.v[1]))
      [] r = "sensitive_nonpositive" ->
           LET m == Get(d, "sensitive_hosts") IN
           SetKey(d, "sensitive_hosts", SetAt(m, p, IF p % 2 = 0 THEN IntN(0) ELSE NumN(-2500000)))
      [] r \in {"exploit_missing_field", "exploit_unknown_service", "exploit_unknown_os", "exploit_prob_high",
                "exploit_prob_negative", "exploit_cost_nonpositive", "exploit_bad_access"} ->
           BreakAct(d, "exploits", "service", r, p)
      [] r \in {"privesc_missing_field", "privesc_unknown_process", "privesc_unknown_os", "privesc_prob_high",
                "privesc_prob_negative", "privesc_cost_nonpositive", "privesc_bad_access"} ->
           BreakAct(d, "privilege_escalation", "process", r, p)
      [] r = "scan_cost_negative" -> SetKey(d, ScanNames[p], IF p % 2 = 0 THEN IntN(-1) ELSE NumN(-500000))
      [] r = "host_missing" -> SetKey(d, "host_configurations", DropAt(Get(d, "host_configurations"), p))
      [] r = "host_superfluous" ->
           LET m == Get(d, "host_configurations") IN
           SetKey(d, "host_configurations", AddEntry(m, Addr(1, SizeOf(d, 1)), m.v[1]))
      [] r = "host_value_contradicts_sensitive" ->
           LET m == Get(d, "host_configurations")
               i == NthOf(SensHostIdx(d), ((p - 1) \div 3) + 1)
               sv == Micro(GetAddr(Get(d, "sensitive_hosts"), m.k[i].v))
               bad == CASE p % 3 = 1 -> NumN(sv + 1500000) [] p % 3 = 2 -> IntN(0) [] OTHER -> NumN(0) IN
           SetKey(d, "host_configurations", SetAt(m, i, SetKey(m.v[i], "value", bad)))
      [] r \in {"host_unknown_service", "host_duplicate_service", "host_unknown_process", "host_duplicate_process",
                "host_unknown_os", "host_firewall_not_map", "host_firewall_bad_address",
                "host_firewall_unknown_service", "host_value_nonnumeric"} -> BreakHost(d, r, p)
      [] r = "firewall_rule_missing" ->
           SetKey(d, "firewall", DropAt(Get(d, "firewall"), NthOf(RequiredRules(d), p)))
      [] r = "firewall_rule_not_list" -> SetKey(d, "firewall", SetAt(Get(d, "firewall"), p, StrN(SrvD(d)[1])))
      [] r = "firewall_rule_unknown_service" ->
           LET m == Get(d, "firewall") IN
           SetKey(d, "firewall", SetAt(m, p, List(Append(m.v[p].v, StrN("zz_unknown")))))
      [] r = "firewall_rule_duplicate_service" ->
           LET m == Get(d, "firewall")  i == NthOf(NonEmptyRules(d), p) IN
           SetKey(d, "firewall", SetAt(m, i, List(Append(m.v[i].v, m.v[i].v[1]))))
      [] r = "step_limit_zero" -> SetKey(d, "step_limit", IF p = 1 THEN IntN(0) ELSE NumN(2500000))
      [] r = "step_limit_negative" -> SetKey(d, "step_limit", IntN(-5))

=============================================================================
