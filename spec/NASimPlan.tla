----------------------------- MODULE NASimPlan ------------------------------
(***************************************************************************)
(* Two restricted next-state relations over the reference semantics,       *)
(* every draw lucky:                                                       *)
(*                                                                         *)
(*  Greedy  - one deterministic, prioritised useful action per step.  The  *)
(*            dynamics are monotone (every enabling condition of Trans is  *)
(*            positive in comp/acc/disc/reach and every effect only raises *)
(*            them), so the goal is reachable iff the greedy run reaches   *)
(*            it.  TLC is asked for the invariant ~Goal: a counterexample  *)
(*            IS a plan (C16); no counterexample = unsolvable.             *)
(*                                                                         *)
(*  Useful  - all state-changing successful actions, with the total reward *)
(*            carried in the state; runs stop at the goal.  Exact for the  *)
(*            maximum total of goal-reaching episodes when every action    *)
(*            costs >= 1: deleting a step that leaves the state unchanged  *)
(*            keeps the history executable and raises its total (C20).     *)
(***************************************************************************)
EXTENDS NASimObs, SequencesExt

CONSTANT PlanMode          \* "greedy" | "useful"

VARIABLES cur, score, last, ncomp, hist

vars == <<cur, score, last, ncomp, hist>>
\* the action history is a label: hidden from the fingerprint, the first history found for a state is kept
view == <<cur, score, ncomp>>

Init == cur = InitSt /\ score = 0 /\ last = 0 /\ ncomp = 0 /\ hist = <<>>

Changes(st, k) == WouldChange(st, FlatAt(k))

KindOf(k) ==
    LET o == (k - 1) % PerHost IN
    IF o = 0 THEN "service_scan" ELSE IF o = 1 THEN "os_scan" ELSE IF o = 2 THEN "subnet_scan"
    ELSE IF o = 3 THEN "process_scan" ELSE IF o < 4 + NExp THEN "exploit" ELSE "privesc"
TargetOf(k) == HostOrder[((k - 1) \div PerHost) + 1]

AllK == 1..NActions

\* priorities of the greedy run: (1) gain access on a sensitive host, (2) discover, (3) compromise a new host,
\* (4) anything else that changes the state
Pri(st, k, p) ==
    CASE p = 1 -> /\ KindOf(k) \in {"exploit", "privesc"} /\ TargetOf(k) \in Sens
                  /\ st[TargetOf(k)].acc < 2 /\ Changes(st, k)
      [] p = 2 -> KindOf(k) = "subnet_scan" /\ st[TargetOf(k)].comp /\ Changes(st, k)
      [] p = 3 -> KindOf(k) = "exploit" /\ ~st[TargetOf(k)].comp /\ Changes(st, k)
      [] OTHER -> KindOf(k) \in {"exploit", "privesc"} /\ Changes(st, k)

\* first action (in flat order) of priority class p that applies, 0 if none; host by host so that the
\* recursion depth stays at the number of hosts
RECURSIVE FirstInHost(_, _, _, _)
FirstInHost(st, p, hi, o) ==
    IF o >= PerHost THEN 0
    ELSE LET k == (hi - 1) * PerHost + o + 1 IN
         IF Pri(st, k, p) THEN k ELSE FirstInHost(st, p, hi, o + 1)
RECURSIVE FirstFrom(_, _, _)
FirstFrom(st, p, hi) ==
    IF hi > NHosts THEN 0
    ELSE LET t == HostOrder[hi] IN
         IF ~(st[t].reach /\ st[t].disc) THEN FirstFrom(st, p, hi + 1)
         ELSE LET k == FirstInHost(st, p, hi, 0) IN IF k # 0 THEN k ELSE FirstFrom(st, p, hi + 1)

GreedyChoice(st) ==
    LET k1 == FirstFrom(st, 1, 1) IN
    IF k1 # 0 THEN k1
    ELSE LET k2 == FirstFrom(st, 2, 1) IN
         IF k2 # 0 THEN k2
         ELSE LET k3 == FirstFrom(st, 3, 1) IN
              IF k3 # 0 THEN k3 ELSE FirstFrom(st, 4, 1)

Ready(st, k) == LET t == FlatAt(k).target IN st[t].reach /\ st[t].disc

Do(k) ==
    LET a == FlatAt(k)
        x == Trans(cur, a, TRUE) IN
    /\ cur' = x.st
    /\ score' = score + x.value - a.cost
    /\ last' = k
    /\ hist' = IF PlanMode = "greedy" THEN hist ELSE Append(hist, k)
    /\ ncomp' = Cardinality({h \in Hosts : x.st[h].comp})


GreedyNext ==
    /\ ~Goal(cur)
    /\ LET k == GreedyChoice(cur) IN k # 0 /\ Do(k)

UsefulNext ==
    /\ ~Goal(cur)
    /\ \E k \in AllK : Ready(cur, k) /\ Changes(cur, k) /\ Do(k)

Next == IF PlanMode = "greedy" THEN GreedyNext ELSE UsefulNext

Spec == Init /\ [][Next]_vars

\* C16: violated exactly when the goal is reachable; the counterexample is a plan
NoPlan == ~Goal(cur)

\* every goal state of the useful-only exploration with its total, number of compromised hosts and one history
GoalReport == Goal(cur) => PrintT(<<"GOAL", ncomp, score, hist>>)

\* C20 (scenario in the cost / value domain): AdvUB, AdvHops are what the implementation advertises
ScoreWithinBound == Goal(cur) => score <= AdvUB
\* checked on the firewall-free twin of the scenario
HopsWithinMinimum == Goal(cur) => ncomp >= AdvHops

=============================================================================
