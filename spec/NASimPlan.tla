----------------------------- MODULE NASimPlan ------------------------------
(***************************************************************************)
(* Two restricted next-state relations over the reference semantics,       *)
(* every draw lucky:                                                       *)
(*                                                                         *)
(*  Greedy  - one deterministic, prioritised useful action per step.  The  *)
(*            dynamics are monotone (every enabling condition of Trans is  *)
(*            positive in comp/acc/disc/reach and every effect only raises *)
(*            them), so the goal is reachable iff the greedy run reaches   *)
(*            it.  TLC is asked for the invariant ~Goal: a counterexample  *)
(*            IS a plan (C16); no counterexample = unsolvable.             *)
(*                                                                         *)
(*  Useful  - all state-changing successful actions, with the total reward *)
(*            carried in the state; runs stop at the goal.  Exact for the  *)
(*            maximum total of goal-reaching episodes when every action    *)
(*            costs >= 1: deleting a step that leaves the state unchanged  *)
(*            keeps the history executable and raises its total (C20).     *)
(***************************************************************************)
EXTENDS NASimObs, SequencesExt

CONSTANT PlanMode          \* "greedy" | "useful"

VARIABLES cur, score, last, ncomp

vars == <<cur, score, last, ncomp>>

Init == cur = InitSt /\ score = 0 /\ last = 0 /\ ncomp = 0

Changes(st, k) == Trans(st, FlatAt(k), TRUE).st # st

Ready(st, k) == LET t == FlatAt(k).target IN st[t].reach /\ st[t].disc

KindOf(k) ==
    LET o == (k - 1) % PerHost IN
    IF o = 0 THEN "service_scan" ELSE IF o = 1 THEN "os_scan" ELSE IF o = 2 THEN "subnet_scan"
    ELSE IF o = 3 THEN "process_scan" ELSE IF o < 4 + NExp THEN "exploit" ELSE "privesc"
TargetOf(k) == HostOrder[((k - 1) \div PerHost) + 1]

AllK == 1..NActions

\* priorities of the greedy run
P1(st) == {k \in AllK : /\ KindOf(k) \in {"exploit", "privesc"} /\ TargetOf(k) \in Sens
                        /\ st[TargetOf(k)].acc < 2 /\ Ready(st, k) /\ Changes(st, k)}
P2(st) == {k \in AllK : KindOf(k) = "subnet_scan" /\ st[TargetOf(k)].comp /\ Changes(st, k)}
P3(st) == {k \in AllK : /\ KindOf(k) = "exploit" /\ ~st[TargetOf(k)].comp /\ Ready(st, k)
                        /\ Changes(st, k)}
P4(st) == {k \in AllK : KindOf(k) \in {"exploit", "privesc"} /\ Ready(st, k) /\ Changes(st, k)}

GreedyChoice(st) ==
    IF P1(st) # {} THEN Min(P1(st))
    ELSE IF P2(st) # {} THEN Min(P2(st))
    ELSE IF P3(st) # {} THEN Min(P3(st))
    ELSE IF P4(st) # {} THEN Min(P4(st))
    ELSE 0

Do(k) ==
    LET a == FlatAt(k)
        x == Trans(cur, a, TRUE) IN
    /\ cur' = x.st
    /\ score' = score + x.value - a.cost
    /\ last' = k
    /\ ncomp' = Cardinality({h \in Hosts : x.st[h].comp})
    /\ IF PlanMode = "greedy" THEN PrintT(<<"PLAN", k>>) ELSE TRUE

GreedyNext ==
    /\ ~Goal(cur)
    /\ LET k == GreedyChoice(cur) IN k # 0 /\ Do(k)

UsefulNext ==
    /\ ~Goal(cur)
    /\ \E k \in AllK : Ready(cur, k) /\ Changes(cur, k) /\ Do(k)

Next == IF PlanMode = "greedy" THEN GreedyNext ELSE UsefulNext

Spec == Init /\ [][Next]_vars

\* C16: violated exactly when the goal is reachable; the counterexample is a plan
NoPlan == ~Goal(cur)

\* C20 (scenario in the cost / value domain): AdvUB, AdvHops are what the implementation advertises
ScoreWithinBound == Goal(cur) => score <= AdvUB
\* checked on the firewall-free twin of the scenario
HopsWithinMinimum == Goal(cur) => ncomp >= AdvHops

---------------------------------------------------------------------------
(* The hop count the implementation is documented to compute: all-pairs    *)
(* shortest paths, then the cheapest order of visiting the internet and    *)
(* every sensitive subnet, summing pairwise distances (used only to        *)
(* recognise the known finding KF_PermutationWalk).                        *)

Inf == 1000
RECURSIVE FW_(_, _)
FW_(k, d) ==
    IF k > NSub THEN d
    ELSE FW_(k + 1, [i \in 1..NSub |-> [j \in 1..NSub |->
             IF d[i][k] + d[k][j] < d[i][j] THEN d[i][k] + d[k][j] ELSE d[i][j]]])
Dist == FW_(1, [i \in 1..NSub |-> [j \in 1..NSub |->
                   IF i = j THEN 0 ELSE IF Topo[i][j] = 1 THEN 1 ELSE Inf]])
ToVisit == {0} \cup {Sub(h) : h \in Sens}
WalkLen(p) == LET RECURSIVE go(_)
                  go(i) == IF i >= Len(p) THEN 0 ELSE Dist[p[i] + 1][p[i + 1] + 1] + go(i + 1)
              IN go(1)
PermWalk == Min({WalkLen(p) : p \in SetToSeqs(ToVisit)})

=============================================================================
