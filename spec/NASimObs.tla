----------------------------- MODULE NASimObs ------------------------------
(***************************************************************************)
(* The documented vector layout of states and observations, as index       *)
(* arithmetic over the scenario's address-space bounds and its ordered     *)
(* OS / service / process lists.  This module IS the refinement mapping:   *)
(* raw tensors recorded from the implementation are decoded with it, and   *)
(* the observation the specification expects is encoded with it.           *)
(*                                                                         *)
(* A row is a sequence (1-based) of milli-ints; column numbers below are   *)
(* the documented 0-based positions + 1.                                   *)
(***************************************************************************)
EXTENDS NASimCore

nS == Bounds[1]
nH == Bounds[2]
NOS == Len(OSs)
NSrv == Len(Srvs)
NProc == Len(Procs)

ColSub(s) == s + 1                     \* s \in 0..nS-1 (internet included)
ColHost(i) == nS + i + 1               \* i \in 0..nH-1
ColComp == nS + nH + 1
ColReach == nS + nH + 2
ColDisc == nS + nH + 3
ColVal == nS + nH + 4
ColDVal == nS + nH + 5
ColAcc == nS + nH + 6
ColOS(i) == nS + nH + 6 + i            \* i \in 1..NOS
ColSrv(i) == nS + nH + 6 + NOS + i     \* i \in 1..NSrv
ColProc(i) == nS + nH + 6 + NOS + NSrv + i
RowLen == nS + nH + 6 + NOS + NSrv + NProc

AddrCols == 1..(nS + nH)
OSCols == {ColOS(i) : i \in 1..NOS}
SrvCols == {ColSrv(i) : i \in 1..NSrv}
ProcCols == {ColProc(i) : i \in 1..NProc}
StatusCols == {ColComp, ColReach, ColDisc, ColAcc}
ConfigCols == (1..RowLen) \ StatusCols

B(b) == IF b THEN 1000 ELSE 0

\* the row of host h in attack state st
EncodeRow(st, h) ==
    [c \in 1..RowLen |->
       IF c = ColSub(h[1]) \/ c = ColHost(h[2]) THEN 1000
       ELSE IF c <= nS + nH THEN 0
       ELSE IF c = ColComp THEN B(st[h].comp)
       ELSE IF c = ColReach THEN B(st[h].reach)
       ELSE IF c = ColDisc THEN B(st[h].disc)
       ELSE IF c = ColVal THEN Val[h]
       ELSE IF c = ColDVal THEN DVal[h]
       ELSE IF c = ColAcc THEN 1000 * st[h].acc
       ELSE IF c <= nS + nH + 6 + NOS THEN B(OSs[c - (nS + nH + 6)] \in HostOS[h])
       ELSE IF c <= nS + nH + 6 + NOS + NSrv
              THEN B(Srvs[c - (nS + nH + 6 + NOS)] \in HostSrv[h])
       ELSE B(Procs[c - (nS + nH + 6 + NOS + NSrv)] \in HostProc[h])]

EncodeState(st) == [r \in 1..NHosts |-> EncodeRow(st, HostOrder[r])]

\* decoding of the mutable part of a raw row
StatusWellFormed(row) ==
    /\ row[ColComp] \in {0, 1000}
    /\ row[ColReach] \in {0, 1000}
    /\ row[ColDisc] \in {0, 1000}
    /\ row[ColAcc] \in {0, 1000, 2000}

DecodeStatus(row) ==
    [comp |-> row[ColComp] # 0, acc |-> row[ColAcc] \div 1000,
     reach |-> row[ColReach] # 0, disc |-> row[ColDisc] # 0]

\* full decoding of a row into a host definition (C09: decoding the initial
\* tensor this way reproduces every host definition of the scenario)
DecodeRow(row) ==
    [subs |-> {s \in 0..(nS - 1) : row[ColSub(s)] # 0},
     ids |-> {i \in 0..(nH - 1) : row[ColHost(i)] # 0},
     value |-> row[ColVal], dvalue |-> row[ColDVal],
     os |-> {OSs[i] : i \in {j \in 1..NOS : row[ColOS(j)] # 0}},
     srvs |-> {Srvs[i] : i \in {j \in 1..NSrv : row[ColSrv(j)] # 0}},
     procs |-> {Procs[i] : i \in {j \in 1..NProc : row[ColProc(j)] # 0}},
     status |-> DecodeStatus(row)]

HostDef(st, h) ==
    [subs |-> {h[1]}, ids |-> {h[2]}, value |-> Val[h], dvalue |-> DVal[h],
     os |-> HostOS[h], srvs |-> HostSrv[h], procs |-> HostProc[h],
     status |-> st[h]]

DecodeState(raw) == [h \in Hosts |-> DecodeStatus(raw[HostIdx(h)])]

ZeroRow == [c \in 1..RowLen |-> 0]

---------------------------------------------------------------------------
(* Entitlement: which feature groups an action type reveals                *)

BaseCols == AddrCols \cup {ColReach, ColDisc}

\* columns revealed in the target's row by a successful action
TargetCols(kind) ==
    CASE kind = "exploit" -> BaseCols \cup {ColComp, ColVal, ColAcc} \cup OSCols \cup SrvCols
      [] kind = "privesc" -> BaseCols \cup {ColComp, ColAcc}
      [] kind = "service_scan" -> BaseCols \cup SrvCols
      [] kind = "os_scan" -> BaseCols \cup OSCols
      [] kind = "process_scan" -> BaseCols \cup {ColAcc} \cup ProcCols
      [] kind = "subnet_scan" -> BaseCols \cup {ColComp}
      [] OTHER -> {}

\* columns revealed in the row of a host found by a subnet scan
FoundCols(isNew) == IF isNew THEN BaseCols \cup {ColDVal} ELSE BaseCols

MaskRow(row, cols) == [c \in 1..RowLen |-> IF c \in cols THEN row[c] ELSE 0]

\* rows an action may say anything about
EntitledRows(a, res) ==
    IF a.kind = "noop" \/ ~res.success THEN {}
    ELSE IF a.kind = "subnet_scan" THEN {a.target} \cup res.disc
    ELSE {a.target}

EntitledCols(a, res, h) ==
    IF h = a.target THEN TargetCols(a.kind)
    ELSE FoundCols(h \in res.newly)

\* the observation row the reference model expects for host h, given the
\* resulting state post
ExpObsRow(post, a, res, fullyObs, h) ==
    IF fullyObs THEN EncodeRow(post, h)
    ELSE IF h \in EntitledRows(a, res)
      THEN MaskRow(EncodeRow(post, h), EntitledCols(a, res, h))
    ELSE ZeroRow

AuxRow(res) ==
    [c \in 1..RowLen |->
       IF c = 1 THEN B(res.success)
       ELSE IF c = 2 THEN B("conn" \in res.flags)
       ELSE IF c = 3 THEN B("perm" \in res.flags)
       ELSE IF c = 4 THEN B("undef" \in res.flags)
       ELSE 0]

\* initial observation
InitObsRow(st, fullyObs, h) ==
    IF fullyObs THEN EncodeRow(st, h)
    ELSE IF st[h].reach THEN MaskRow(EncodeRow(st, h), BaseCols)
    ELSE ZeroRow

\* bounds of the observation space (milli-units)
MinOf(S) == Min(S)
MaxOf(S) == Max(S)
SpaceLow == MinOf({0} \cup {Val[h] : h \in Hosts} \cup {DVal[h] : h \in Hosts})
SpaceHigh == MaxOf({1000, 2000, 1000 * nS, 1000 * nH}
                   \cup {Val[h] : h \in Hosts} \cup {DVal[h] : h \in Hosts})
StateDims == <<NHosts, RowLen>>
ObsDims == <<NHosts + 1, RowLen>>

=============================================================================
