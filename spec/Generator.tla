----------------------------- MODULE Generator ------------------------------
(***************************************************************************)
(* Operational model of nasim.scenarios.generator.ScenarioGenerator        *)
(* .generate for SMALL parameters, with every random draw a                *)
(* nondeterministic choice: TLC explores every seed at once.               *)
(*                                                                         *)
(*  - one PlusCal label per phase of the generator, one `with` per RNG     *)
(*    call site; retry loops are abstracted to "choose any acceptable      *)
(*    value; stuck if none exists"; arithmetic that can fault is modelled  *)
(*    explicitly (alpha_V / (alpha_V - 1) => crashed);                     *)
(*  - `tape` records what every numpy.random call returned, in call order, *)
(*    so that a behaviour can be replayed into the real generator through  *)
(*    a scripted numpy.random (harness/gentape.py);                        *)
(*  - invariants: never stuck, never crashed (C15 terminates / no          *)
(*    exception, for every seed), and a finished run is well formed and    *)
(*    root-vulnerable (C15 / C16 at design level).                         *)
(*                                                                         *)
(* Fixed: float probabilities (no draw), alpha_H = alpha_V = 2 (or         *)
(* alpha_V = 1 with AlphaVOne), Poisson truncated to 0..2, one user        *)
(* subnet (NH <= 7).  Services / OS / processes are 1..NS / 1..NOS /       *)
(* 1..NP; OS 0 = "works on every OS".                                      *)
(***************************************************************************)
EXTENDS Integers, Sequences, FiniteSets, TLC, Json

CONSTANTS NH, NS, NOS, NP, NE, NPE, R, Uniform, AlphaVOne, RandomGoal

Srv == 1..NS
OSs == 1..NOS
Proc == 1..NP
UserSize == NH - 2
Addrs == <<<<1, 0>>, <<2, 0>>>> \o [h \in 1..UserSize |-> <<3, h - 1>>]
AddrSet == {Addrs[i] : i \in 1..Len(Addrs)}
SubSize(s) == IF s = 3 THEN UserSize ELSE 1
Connected(a, b) == a = b \/ (a = 0 /\ b = 1) \/ (a = 1 /\ b = 0) \/ (a >= 1 /\ b >= 1)
Pairs == {<<a, b>> \in (0..3) \X (0..3) : a # b /\ Connected(a, b)}
PairSeq == << <<0, 1>>, <<1, 0>>, <<1, 2>>, <<1, 3>>, <<2, 1>>, <<2, 3>>, <<3, 1>>, <<3, 2>> >>
SeqSet(s) == {s[i] : i \in 1..Len(s)}
Count(s, x) == Cardinality({i \in 1..Len(s) : s[i] = x})

\* index k (0-based) of the generator's configuration list -> set of options present
Present(k, j) == ((k \div (2 ^ (j - 1))) % 2) = 0
Config(k, n) == {j \in 1..n : Present(k, j)}
NConfigs(n) == (2 ^ n) - 1

ExploitApplies(e, h) == e.srv \in h.srvs /\ (e.os = 0 \/ e.os = h.os)
PrivescApplies(p, h) == p.proc \in h.procs /\ (p.os = 0 \/ p.os = h.os)
Vulnerable(h, level, exps, pes) ==
    \E i \in 1..Len(exps) :
       /\ ExploitApplies(exps[i], h)
       /\ (exps[i].acc >= level \/ \E j \in 1..Len(pes) : PrivescApplies(pes[j], h))

SortedSeq(S) == LET RECURSIVE go(_, _)
                    go(T, acc) == IF T = {} THEN acc
                                  ELSE LET m == CHOOSE x \in T : \A y \in T : x <= y IN go(T \ {m}, Append(acc, m))
                IN go(S, <<>>)
IndexIn(seq, x) == CHOOSE i \in 1..Len(seq) : seq[i] = x

(*--algorithm Generator
variables
  exploits = <<>>, privescs = <<>>, oschoices = <<>>,
  sens = {<<2, 0>>},
  hosts = [a \in AddrSet |-> [os |-> 1, srvs |-> {}, procs |-> {}]],
  fw = [p \in Pairs |-> {}],
  tape = <<>>,
  stuck = FALSE, crashed = FALSE, done = FALSE,
  hi = 1, prevcfgs = <<>>, prevos = <<>>, prevsrv = <<>>, prevproc = <<>>,
  vulsub = {}, tries = 0, pi = 1, level = 1, target = <<1, 0>>, avail = {}, allowed = {}, cfg = [os |-> 1, srvs |-> {}, procs |-> {}],
  n = 0, k = 0, phase = "exploits";

define
  FreshExploits == {e \in [srv : Srv, os : 0..NOS, acc : 1..2] :
                      \A i \in 1..Len(exploits) : ~(exploits[i].srv = e.srv /\ exploits[i].os = e.os)}
  OsChoicesOK(c) ==
      /\ (NPE < NOS => c[1] = 0)
      /\ (NPE >= NOS => (0 \in SeqSet(c) \/ OSs \subseteq SeqSet(c)))
      /\ \A o \in 0..NOS : Count(c, o) <= NP
  FreshProcs(o) == {p \in Proc : \A i \in 1..Len(privescs) : ~(privescs[i].proc = p /\ privescs[i].os = o)}
  SubnetServices(s) == {e.srv : e \in {exploits[i] : i \in {j \in 1..Len(exploits) :
                            \E a \in AddrSet : a[1] = s /\ ExploitApplies(exploits[j], hosts[a])}}}
end define;

begin
GenExploits:
  while Len(exploits) < NE do
    if FreshExploits = {} then
      stuck := TRUE; goto Finish;
    else
      with e \in FreshExploits do
        exploits := Append(exploits, e);
        tape := tape \o << <<"choice", e.srv - 1>>, <<"choice", IF e.os = 0 THEN NOS ELSE e.os - 1>>, <<"randint", e.acc>> >>;
      end with;
    end if;
  end while;

GenOsChoices:
  phase := "privescs";
  if {c \in [1..NPE -> 0..NOS] : OsChoicesOK(c)} = {} then
    stuck := TRUE; goto Finish;
  else
    with c \in {c \in [1..NPE -> 0..NOS] : OsChoicesOK(c)} do
      oschoices := c;
      tape := Append(tape, <<"choice_n", IF NPE < NOS
                                          THEN [i \in 1..(NPE - 1) |-> IF c[i + 1] = 0 THEN NOS ELSE c[i + 1] - 1]
                                          ELSE [i \in 1..NPE |-> IF c[i] = 0 THEN NOS ELSE c[i] - 1]>>);
    end with;
  end if;

GenPrivescs:
  while Len(privescs) < NPE do
    if FreshProcs(oschoices[Len(privescs) + 1]) = {} then
      stuck := TRUE; goto Finish;
    else
      with p \in FreshProcs(oschoices[Len(privescs) + 1]) do
        tape := Append(tape, <<"choice", p - 1>>);
        privescs := Append(privescs, [proc |-> p, os |-> oschoices[Len(privescs) + 1]]);
      end with;
    end if;
  end while;

GenSensitive:
  phase := "sensitive";
  if RandomGoal then
    with h \in 0..(UserSize - 1) do
      sens := sens \cup {<<3, h>>};
      tape := tape \o << <<"randint", 3>>, <<"randint", h>> >>;
    end with;
  else
    sens := sens \cup {<<3, UserSize - 1>>};
  end if;

GenHostsInit:
  phase := "hosts";
GenHosts:
  while hi <= Len(Addrs) do
    if Uniform then
      with sc \in 0..(NConfigs(NS) - 1), pcf \in 0..(NConfigs(NP) - 1), o \in OSs do
        hosts[Addrs[hi]] := [os |-> o, srvs |-> Config(sc, NS), procs |-> Config(pcf, NP)];
        tape := tape \o << <<"choice", sc>>, <<"choice", pcf>>, <<"choice", o - 1>> >>;
      end with;
      hi := hi + 1;
    else
      \* nested Dirichlet process, alpha_H = 2: a new configuration with probability 2 / (1 + host number)
      with fresh \in (IF hi <= 2 THEN {TRUE} ELSE BOOLEAN) do
        if fresh then
          tape := IF hi > 1 THEN Append(tape, <<"rand", TRUE>>) ELSE tape;
          goto NewConfigOS;
        else
          with j \in 1..Len(prevcfgs) do
            tape := tape \o << <<"rand", FALSE>>, <<"choice", j - 1>> >>;
            hosts[Addrs[hi]] := prevcfgs[j];
            prevcfgs := Append(prevcfgs, prevcfgs[j]);
          end with;
          hi := hi + 1;
        end if;
      end with;
    end if;
  end while;
  goto EnsureInit;

NewConfigOS:
  \* _dirichlet_sample: alpha_V / (alpha_V - 1)
  if Len(prevos) > 0 /\ AlphaVOne then
    crashed := TRUE; goto Finish;
  else
    with o \in OSs do
      if Len(prevos) > 0 then tape := tape \o << <<"rand", TRUE>>, <<"choice", o - 1>> >>;
      else tape := Append(tape, <<"choice", o - 1>>);
      end if;
      prevos := Append(prevos, o);
      cfg := [os |-> o, srvs |-> {}, procs |-> {}];
    end with;
  end if;
NewConfigSrv:
  \* _dirichlet_process over services: max(poisson, 1) draws; the second draw is fresh with probability 1
  with po \in 0..2, x1 \in 0..(NS - 1), x2 \in 0..(NS - 1) do
    if po <= 1 then
      tape := tape \o << <<"poisson", po>>, <<"randint", x1>> >>;
      cfg.srvs := {x1 + 1};
      prevsrv := Append(prevsrv, x1);
    else
      tape := tape \o << <<"poisson", po>>, <<"randint", x1>>, <<"rand", TRUE>>, <<"randint", x2>> >>;
      cfg.srvs := {x1 + 1, x2 + 1};
      prevsrv := prevsrv \o <<x1, x2>>;
    end if;
  end with;
NewConfigProc:
  with po \in 0..2, x1 \in 0..(NP - 1), x2 \in 0..(NP - 1) do
    if po <= 1 then
      tape := tape \o << <<"poisson", po>>, <<"randint", x1>> >>;
      cfg.procs := {x1 + 1};
      prevproc := Append(prevproc, x1);
    else
      tape := tape \o << <<"poisson", po>>, <<"randint", x1>>, <<"rand", TRUE>>, <<"randint", x2>> >>;
      cfg.procs := {x1 + 1, x2 + 1};
      prevproc := prevproc \o <<x1, x2>>;
    end if;
  end with;
NewConfigDone:
  hosts[Addrs[hi]] := cfg;
  prevcfgs := Append(prevcfgs, cfg);
  hi := hi + 1;
  goto GenHosts;

EnsureInit:
  phase := "ensure";
  hi := 1;
EnsureHosts:
  \* _ensure_host_vulnerability, first loop (hosts in order)
  while hi <= Len(Addrs) do
    if Addrs[hi] \notin sens /\ Addrs[hi][1] \in vulsub then
      hi := hi + 1;
    elsif Addrs[hi] \in sens then
      if ~Vulnerable(hosts[Addrs[hi]], 2, exploits, privescs) then
        target := Addrs[hi]; level := 2; tries := 0; pi := 1;
        goto MakeVulnerable;
      else
        vulsub := vulsub \cup {Addrs[hi][1]};
        hi := hi + 1;
      end if;
    else
      if Vulnerable(hosts[Addrs[hi]], 1, exploits, privescs) then
        vulsub := vulsub \cup {Addrs[hi][1]};
      end if;
      hi := hi + 1;
    end if;
  end while;
  pi := 2;
  k := 1;
  goto EnsureSubnets;

MakeVulnerable:
  \* _update_host_to_vulnerable: up to VUL_RETRIES = 5 attempts
  if tries >= 5 then
    crashed := TRUE; goto Finish;
  else
    with ei \in 1..Len(exploits) do
      tape := Append(tape, <<"choice", ei - 1>>);
      hosts[target].srvs := hosts[target].srvs \cup {exploits[ei].srv} ||
      hosts[target].os := IF exploits[ei].os # 0 THEN exploits[ei].os ELSE hosts[target].os;
      n := ei;
    end with;
  end if;
MakeVulnerable2:
  if exploits[n].acc >= level then
    goto AfterVulnerable;
  elsif {j \in 1..Len(privescs) : privescs[j].os = 0 \/ privescs[j].os = hosts[target].os} = {} then
    tries := tries + 1;
    goto MakeVulnerable;
  else
    with j \in {j \in 1..Len(privescs) : privescs[j].os = 0 \/ privescs[j].os = hosts[target].os} do
      tape := Append(tape, <<"choice", IndexIn(SortedSeq({jj \in 1..Len(privescs) :
                                   privescs[jj].os = 0 \/ privescs[jj].os = hosts[target].os}), j) - 1>>);
      hosts[target].procs := hosts[target].procs \cup {privescs[j].proc};
    end with;
    goto AfterVulnerable;
  end if;
AfterVulnerable:
  vulsub := vulsub \cup {target[1]};
  if pi = 1 then
    hi := hi + 1;
    goto EnsureHosts;
  else
    k := k + 1;
    goto EnsureSubnets;
  end if;

EnsureSubnets:
  \* second loop: every subnet without a vulnerable host gets one
  while k <= 3 do
    if k \in vulsub then
      k := k + 1;
    else
      with h \in 0..(SubSize(k) - 1) do
        tape := Append(tape, <<"randint", h>>);
        target := <<k, h>>; level := 1; tries := 0;
      end with;
      goto MakeVulnerable;
    end if;
  end while;
  k := 1;

GenFirewallInit:
  phase := "firewall";
GenFirewall:
  while k <= Len(PairSeq) do
    avail := SubnetServices(PairSeq[k][2]);
    if PairSeq[k][2] = 0 \/ Cardinality(avail) < R then
      fw[PairSeq[k]] := IF PairSeq[k][2] = 0 THEN {} ELSE avail;
      k := k + 1;
    else
      allowed := {};
      goto PickAllowed;
    end if;
  end while;
  goto Complete;
PickAllowed:
  while Cardinality(allowed) < R do
    with s \in avail do
      tape := Append(tape, <<"choice", IndexIn(SortedSeq(avail), s) - 1>>);
      allowed := allowed \cup {s};
      avail := avail \ {s};
    end with;
  end while;
  fw[PairSeq[k]] := allowed;
  k := k + 1;
  goto GenFirewall;

Complete:
  done := TRUE;
  phase := "done";
Finish:
  skip;
end algorithm; *)
\* BEGIN TRANSLATION
VARIABLES pc, exploits, privescs, oschoices, sens, hosts, fw, tape, stuck, 
          crashed, done, hi, prevcfgs, prevos, prevsrv, prevproc, vulsub, 
          tries, pi, level, target, avail, allowed, cfg, n, k, phase

(* define statement *)
FreshExploits == {e \in [srv : Srv, os : 0..NOS, acc : 1..2] :
                    \A i \in 1..Len(exploits) : ~(exploits[i].srv = e.srv /\ exploits[i].os = e.os)}
OsChoicesOK(c) ==
    /\ (NPE < NOS => c[1] = 0)
    /\ (NPE >= NOS => (0 \in SeqSet(c) \/ OSs \subseteq SeqSet(c)))
    /\ \A o \in 0..NOS : Count(c, o) <= NP
FreshProcs(o) == {p \in Proc : \A i \in 1..Len(privescs) : ~(privescs[i].proc = p /\ privescs[i].os = o)}
SubnetServices(s) == {e.srv : e \in {exploits[i] : i \in {j \in 1..Len(exploits) :
                          \E a \in AddrSet : a[1] = s /\ ExploitApplies(exploits[j], hosts[a])}}}


vars == << pc, exploits, privescs, oschoices, sens, hosts, fw, tape, stuck, 
           crashed, done, hi, prevcfgs, prevos, prevsrv, prevproc, vulsub, 
           tries, pi, level, target, avail, allowed, cfg, n, k, phase >>

Init == (* Global variables *)
        /\ exploits = <<>>
        /\ privescs = <<>>
        /\ oschoices = <<>>
        /\ sens = {<<2, 0>>}
        /\ hosts = [a \in AddrSet |-> [os |-> 1, srvs |-> {}, procs |-> {}]]
        /\ fw = [p \in Pairs |-> {}]
        /\ tape = <<>>
        /\ stuck = FALSE
        /\ crashed = FALSE
        /\ done = FALSE
        /\ hi = 1
        /\ prevcfgs = <<>>
        /\ prevos = <<>>
        /\ prevsrv = <<>>
        /\ prevproc = <<>>
        /\ vulsub = {}
        /\ tries = 0
        /\ pi = 1
        /\ level = 1
        /\ target = <<1, 0>>
        /\ avail = {}
        /\ allowed = {}
        /\ cfg = [os |-> 1, srvs |-> {}, procs |-> {}]
        /\ n = 0
        /\ k = 0
        /\ phase = "exploits"
        /\ pc = "GenExploits"

GenExploits == /\ pc = "GenExploits"
               /\ IF Len(exploits) < NE
                     THEN /\ IF FreshExploits = {}
                                THEN /\ stuck' = TRUE
                                     /\ pc' = "Finish"
                                     /\ UNCHANGED << exploits, tape >>
                                ELSE /\ \E e \in FreshExploits:
                                          /\ exploits' = Append(exploits, e)
                                          /\ tape' = tape \o << <<"choice", e.srv - 1>>, <<"choice", IF e.os = 0 THEN NOS ELSE e.os - 1>>, <<"randint", e.acc>> >>
                                     /\ pc' = "GenExploits"
                                     /\ stuck' = stuck
                     ELSE /\ pc' = "GenOsChoices"
                          /\ UNCHANGED << exploits, tape, stuck >>
               /\ UNCHANGED << privescs, oschoices, sens, hosts, fw, crashed, 
                               done, hi, prevcfgs, prevos, prevsrv, prevproc, 
                               vulsub, tries, pi, level, target, avail, 
                               allowed, cfg, n, k, phase >>

GenOsChoices == /\ pc = "GenOsChoices"
                /\ phase' = "privescs"
                /\ IF {c \in [1..NPE -> 0..NOS] : OsChoicesOK(c)} = {}
                      THEN /\ stuck' = TRUE
                           /\ pc' = "Finish"
                           /\ UNCHANGED << oschoices, tape >>
                      ELSE /\ \E c \in {c \in [1..NPE -> 0..NOS] : OsChoicesOK(c)}:
                                /\ oschoices' = c
                                /\ tape' = Append(tape, <<"choice_n", IF NPE < NOS
                                                                       THEN [i \in 1..(NPE - 1) |-> IF c[i + 1] = 0 THEN NOS ELSE c[i + 1] - 1]
                                                                       ELSE [i \in 1..NPE |-> IF c[i] = 0 THEN NOS ELSE c[i] - 1]>>)
                           /\ pc' = "GenPrivescs"
                           /\ stuck' = stuck
                /\ UNCHANGED << exploits, privescs, sens, hosts, fw, crashed, 
                                done, hi, prevcfgs, prevos, prevsrv, prevproc, 
                                vulsub, tries, pi, level, target, avail, 
                                allowed, cfg, n, k >>

GenPrivescs == /\ pc = "GenPrivescs"
               /\ IF Len(privescs) < NPE
                     THEN /\ IF FreshProcs(oschoices[Len(privescs) + 1]) = {}
                                THEN /\ stuck' = TRUE
                                     /\ pc' = "Finish"
                                     /\ UNCHANGED << privescs, tape >>
                                ELSE /\ \E p \in FreshProcs(oschoices[Len(privescs) + 1]):
                                          /\ tape' = Append(tape, <<"choice", p - 1>>)
                                          /\ privescs' = Append(privescs, [proc |-> p, os |-> oschoices[Len(privescs) + 1]])
                                     /\ pc' = "GenPrivescs"
                                     /\ stuck' = stuck
                     ELSE /\ pc' = "GenSensitive"
                          /\ UNCHANGED << privescs, tape, stuck >>
               /\ UNCHANGED << exploits, oschoices, sens, hosts, fw, crashed, 
                               done, hi, prevcfgs, prevos, prevsrv, prevproc, 
                               vulsub, tries, pi, level, target, avail, 
                               allowed, cfg, n, k, phase >>

GenSensitive == /\ pc = "GenSensitive"
                /\ phase' = "sensitive"
                /\ IF RandomGoal
                      THEN /\ \E h \in 0..(UserSize - 1):
                                /\ sens' = (sens \cup {<<3, h>>})
                                /\ tape' = tape \o << <<"randint", 3>>, <<"randint", h>> >>
                      ELSE /\ sens' = (sens \cup {<<3, UserSize - 1>>})
                           /\ tape' = tape
                /\ pc' = "GenHostsInit"
                /\ UNCHANGED << exploits, privescs, oschoices, hosts, fw, 
                                stuck, crashed, done, hi, prevcfgs, prevos, 
                                prevsrv, prevproc, vulsub, tries, pi, level, 
                                target, avail, allowed, cfg, n, k >>

GenHostsInit == /\ pc = "GenHostsInit"
                /\ phase' = "hosts"
                /\ pc' = "GenHosts"
                /\ UNCHANGED << exploits, privescs, oschoices, sens, hosts, fw, 
                                tape, stuck, crashed, done, hi, prevcfgs, 
                                prevos, prevsrv, prevproc, vulsub, tries, pi, 
                                level, target, avail, allowed, cfg, n, k >>

GenHosts == /\ pc = "GenHosts"
            /\ IF hi <= Len(Addrs)
                  THEN /\ IF Uniform
                             THEN /\ \E sc \in 0..(NConfigs(NS) - 1):
                                       \E pcf \in 0..(NConfigs(NP) - 1):
                                         \E o \in OSs:
                                           /\ hosts' = [hosts EXCEPT ![Addrs[hi]] = [os |-> o, srvs |-> Config(sc, NS), procs |-> Config(pcf, NP)]]
                                           /\ tape' = tape \o << <<"choice", sc>>, <<"choice", pcf>>, <<"choice", o - 1>> >>
                                  /\ hi' = hi + 1
                                  /\ pc' = "GenHosts"
                                  /\ UNCHANGED prevcfgs
                             ELSE /\ \E fresh \in (IF hi <= 2 THEN {TRUE} ELSE BOOLEAN):
                                       IF fresh
                                          THEN /\ tape' = (IF hi > 1 THEN Append(tape, <<"rand", TRUE>>) ELSE tape)
                                               /\ pc' = "NewConfigOS"
                                               /\ UNCHANGED << hosts, hi, 
                                                               prevcfgs >>
                                          ELSE /\ \E j \in 1..Len(prevcfgs):
                                                    /\ tape' = tape \o << <<"rand", FALSE>>, <<"choice", j - 1>> >>
                                                    /\ hosts' = [hosts EXCEPT ![Addrs[hi]] = prevcfgs[j]]
                                                    /\ prevcfgs' = Append(prevcfgs, prevcfgs[j])
                                               /\ hi' = hi + 1
                                               /\ pc' = "GenHosts"
                  ELSE /\ pc' = "EnsureInit"
                       /\ UNCHANGED << hosts, tape, hi, prevcfgs >>
            /\ UNCHANGED << exploits, privescs, oschoices, sens, fw, stuck, 
                            crashed, done, prevos, prevsrv, prevproc, vulsub, 
                            tries, pi, level, target, avail, allowed, cfg, n, 
                            k, phase >>

NewConfigOS == /\ pc = "NewConfigOS"
               /\ IF Len(prevos) > 0 /\ AlphaVOne
                     THEN /\ crashed' = TRUE
                          /\ pc' = "Finish"
                          /\ UNCHANGED << tape, prevos, cfg >>
                     ELSE /\ \E o \in OSs:
                               /\ IF Len(prevos) > 0
                                     THEN /\ tape' = tape \o << <<"rand", TRUE>>, <<"choice", o - 1>> >>
                                     ELSE /\ tape' = Append(tape, <<"choice", o - 1>>)
                               /\ prevos' = Append(prevos, o)
                               /\ cfg' = [os |-> o, srvs |-> {}, procs |-> {}]
                          /\ pc' = "NewConfigSrv"
                          /\ UNCHANGED crashed
               /\ UNCHANGED << exploits, privescs, oschoices, sens, hosts, fw, 
                               stuck, done, hi, prevcfgs, prevsrv, prevproc, 
                               vulsub, tries, pi, level, target, avail, 
                               allowed, n, k, phase >>

NewConfigSrv == /\ pc = "NewConfigSrv"
                /\ \E po \in 0..2:
                     \E x1 \in 0..(NS - 1):
                       \E x2 \in 0..(NS - 1):
                         IF po <= 1
                            THEN /\ tape' = tape \o << <<"poisson", po>>, <<"randint", x1>> >>
                                 /\ cfg' = [cfg EXCEPT !.srvs = {x1 + 1}]
                                 /\ prevsrv' = Append(prevsrv, x1)
                            ELSE /\ tape' = tape \o << <<"poisson", po>>, <<"randint", x1>>, <<"rand", TRUE>>, <<"randint", x2>> >>
                                 /\ cfg' = [cfg EXCEPT !.srvs = {x1 + 1, x2 + 1}]
                                 /\ prevsrv' = prevsrv \o <<x1, x2>>
                /\ pc' = "NewConfigProc"
                /\ UNCHANGED << exploits, privescs, oschoices, sens, hosts, fw, 
                                stuck, crashed, done, hi, prevcfgs, prevos, 
                                prevproc, vulsub, tries, pi, level, target, 
                                avail, allowed, n, k, phase >>

NewConfigProc == /\ pc = "NewConfigProc"
                 /\ \E po \in 0..2:
                      \E x1 \in 0..(NP - 1):
                        \E x2 \in 0..(NP - 1):
                          IF po <= 1
                             THEN /\ tape' = tape \o << <<"poisson", po>>, <<"randint", x1>> >>
                                  /\ cfg' = [cfg EXCEPT !.procs = {x1 + 1}]
                                  /\ prevproc' = Append(prevproc, x1)
                             ELSE /\ tape' = tape \o << <<"poisson", po>>, <<"randint", x1>>, <<"rand", TRUE>>, <<"randint", x2>> >>
                                  /\ cfg' = [cfg EXCEPT !.procs = {x1 + 1, x2 + 1}]
                                  /\ prevproc' = prevproc \o <<x1, x2>>
                 /\ pc' = "NewConfigDone"
                 /\ UNCHANGED << exploits, privescs, oschoices, sens, hosts, 
                                 fw, stuck, crashed, done, hi, prevcfgs, 
                                 prevos, prevsrv, vulsub, tries, pi, level, 
                                 target, avail, allowed, n, k, phase >>

NewConfigDone == /\ pc = "NewConfigDone"
                 /\ hosts' = [hosts EXCEPT ![Addrs[hi]] = cfg]
                 /\ prevcfgs' = Append(prevcfgs, cfg)
                 /\ hi' = hi + 1
                 /\ pc' = "GenHosts"
                 /\ UNCHANGED << exploits, privescs, oschoices, sens, fw, tape, 
                                 stuck, crashed, done, prevos, prevsrv, 
                                 prevproc, vulsub, tries, pi, level, target, 
                                 avail, allowed, cfg, n, k, phase >>

EnsureInit == /\ pc = "EnsureInit"
              /\ phase' = "ensure"
              /\ hi' = 1
              /\ pc' = "EnsureHosts"
              /\ UNCHANGED << exploits, privescs, oschoices, sens, hosts, fw, 
                              tape, stuck, crashed, done, prevcfgs, prevos, 
                              prevsrv, prevproc, vulsub, tries, pi, level, 
                              target, avail, allowed, cfg, n, k >>

EnsureHosts == /\ pc = "EnsureHosts"
               /\ IF hi <= Len(Addrs)
                     THEN /\ IF Addrs[hi] \notin sens /\ Addrs[hi][1] \in vulsub
                                THEN /\ hi' = hi + 1
                                     /\ pc' = "EnsureHosts"
                                     /\ UNCHANGED << vulsub, tries, pi, level, 
                                                     target >>
                                ELSE /\ IF Addrs[hi] \in sens
                                           THEN /\ IF ~Vulnerable(hosts[Addrs[hi]], 2, exploits, privescs)
                                                      THEN /\ target' = Addrs[hi]
                                                           /\ level' = 2
                                                           /\ tries' = 0
                                                           /\ pi' = 1
                                                           /\ pc' = "MakeVulnerable"
                                                           /\ UNCHANGED << hi, 
                                                                           vulsub >>
                                                      ELSE /\ vulsub' = (vulsub \cup {Addrs[hi][1]})
                                                           /\ hi' = hi + 1
                                                           /\ pc' = "EnsureHosts"
                                                           /\ UNCHANGED << tries, 
                                                                           pi, 
                                                                           level, 
                                                                           target >>
                                           ELSE /\ IF Vulnerable(hosts[Addrs[hi]], 1, exploits, privescs)
                                                      THEN /\ vulsub' = (vulsub \cup {Addrs[hi][1]})
                                                      ELSE /\ TRUE
                                                           /\ UNCHANGED vulsub
                                                /\ hi' = hi + 1
                                                /\ pc' = "EnsureHosts"
                                                /\ UNCHANGED << tries, pi, 
                                                                level, target >>
                          /\ k' = k
                     ELSE /\ pi' = 2
                          /\ k' = 1
                          /\ pc' = "EnsureSubnets"
                          /\ UNCHANGED << hi, vulsub, tries, level, target >>
               /\ UNCHANGED << exploits, privescs, oschoices, sens, hosts, fw, 
                               tape, stuck, crashed, done, prevcfgs, prevos, 
                               prevsrv, prevproc, avail, allowed, cfg, n, 
                               phase >>

MakeVulnerable == /\ pc = "MakeVulnerable"
                  /\ IF tries >= 5
                        THEN /\ crashed' = TRUE
                             /\ pc' = "Finish"
                             /\ UNCHANGED << hosts, tape, n >>
                        ELSE /\ \E ei \in 1..Len(exploits):
                                  /\ tape' = Append(tape, <<"choice", ei - 1>>)
                                  /\ hosts' = [hosts EXCEPT ![target].srvs = hosts[target].srvs \cup {exploits[ei].srv},
                                                            ![target].os = IF exploits[ei].os # 0 THEN exploits[ei].os ELSE hosts[target].os]
                                  /\ n' = ei
                             /\ pc' = "MakeVulnerable2"
                             /\ UNCHANGED crashed
                  /\ UNCHANGED << exploits, privescs, oschoices, sens, fw, 
                                  stuck, done, hi, prevcfgs, prevos, prevsrv, 
                                  prevproc, vulsub, tries, pi, level, target, 
                                  avail, allowed, cfg, k, phase >>

MakeVulnerable2 == /\ pc = "MakeVulnerable2"
                   /\ IF exploits[n].acc >= level
                         THEN /\ pc' = "AfterVulnerable"
                              /\ UNCHANGED << hosts, tape, tries >>
                         ELSE /\ IF {j \in 1..Len(privescs) : privescs[j].os = 0 \/ privescs[j].os = hosts[target].os} = {}
                                    THEN /\ tries' = tries + 1
                                         /\ pc' = "MakeVulnerable"
                                         /\ UNCHANGED << hosts, tape >>
                                    ELSE /\ \E j \in {j \in 1..Len(privescs) : privescs[j].os = 0 \/ privescs[j].os = hosts[target].os}:
                                              /\ tape' = Append(tape, <<"choice", IndexIn(SortedSeq({jj \in 1..Len(privescs) :
                                                                              privescs[jj].os = 0 \/ privescs[jj].os = hosts[target].os}), j) - 1>>)
                                              /\ hosts' = [hosts EXCEPT ![target].procs = hosts[target].procs \cup {privescs[j].proc}]
                                         /\ pc' = "AfterVulnerable"
                                         /\ tries' = tries
                   /\ UNCHANGED << exploits, privescs, oschoices, sens, fw, 
                                   stuck, crashed, done, hi, prevcfgs, prevos, 
                                   prevsrv, prevproc, vulsub, pi, level, 
                                   target, avail, allowed, cfg, n, k, phase >>

AfterVulnerable == /\ pc = "AfterVulnerable"
                   /\ vulsub' = (vulsub \cup {target[1]})
                   /\ IF pi = 1
                         THEN /\ hi' = hi + 1
                              /\ pc' = "EnsureHosts"
                              /\ k' = k
                         ELSE /\ k' = k + 1
                              /\ pc' = "EnsureSubnets"
                              /\ hi' = hi
                   /\ UNCHANGED << exploits, privescs, oschoices, sens, hosts, 
                                   fw, tape, stuck, crashed, done, prevcfgs, 
                                   prevos, prevsrv, prevproc, tries, pi, level, 
                                   target, avail, allowed, cfg, n, phase >>

EnsureSubnets == /\ pc = "EnsureSubnets"
                 /\ IF k <= 3
                       THEN /\ IF k \in vulsub
                                  THEN /\ k' = k + 1
                                       /\ pc' = "EnsureSubnets"
                                       /\ UNCHANGED << tape, tries, level, 
                                                       target >>
                                  ELSE /\ \E h \in 0..(SubSize(k) - 1):
                                            /\ tape' = Append(tape, <<"randint", h>>)
                                            /\ target' = <<k, h>>
                                            /\ level' = 1
                                            /\ tries' = 0
                                       /\ pc' = "MakeVulnerable"
                                       /\ k' = k
                       ELSE /\ k' = 1
                            /\ pc' = "GenFirewallInit"
                            /\ UNCHANGED << tape, tries, level, target >>
                 /\ UNCHANGED << exploits, privescs, oschoices, sens, hosts, 
                                 fw, stuck, crashed, done, hi, prevcfgs, 
                                 prevos, prevsrv, prevproc, vulsub, pi, avail, 
                                 allowed, cfg, n, phase >>

GenFirewallInit == /\ pc = "GenFirewallInit"
                   /\ phase' = "firewall"
                   /\ pc' = "GenFirewall"
                   /\ UNCHANGED << exploits, privescs, oschoices, sens, hosts, 
                                   fw, tape, stuck, crashed, done, hi, 
                                   prevcfgs, prevos, prevsrv, prevproc, vulsub, 
                                   tries, pi, level, target, avail, allowed, 
                                   cfg, n, k >>

GenFirewall == /\ pc = "GenFirewall"
               /\ IF k <= Len(PairSeq)
                     THEN /\ avail' = SubnetServices(PairSeq[k][2])
                          /\ IF PairSeq[k][2] = 0 \/ Cardinality(avail') < R
                                THEN /\ fw' = [fw EXCEPT ![PairSeq[k]] = IF PairSeq[k][2] = 0 THEN {} ELSE avail']
                                     /\ k' = k + 1
                                     /\ pc' = "GenFirewall"
                                     /\ UNCHANGED allowed
                                ELSE /\ allowed' = {}
                                     /\ pc' = "PickAllowed"
                                     /\ UNCHANGED << fw, k >>
                     ELSE /\ pc' = "Complete"
                          /\ UNCHANGED << fw, avail, allowed, k >>
               /\ UNCHANGED << exploits, privescs, oschoices, sens, hosts, 
                               tape, stuck, crashed, done, hi, prevcfgs, 
                               prevos, prevsrv, prevproc, vulsub, tries, pi, 
                               level, target, cfg, n, phase >>

PickAllowed == /\ pc = "PickAllowed"
               /\ IF Cardinality(allowed) < R
                     THEN /\ \E s \in avail:
                               /\ tape' = Append(tape, <<"choice", IndexIn(SortedSeq(avail), s) - 1>>)
                               /\ allowed' = (allowed \cup {s})
                               /\ avail' = avail \ {s}
                          /\ pc' = "PickAllowed"
                          /\ UNCHANGED << fw, k >>
                     ELSE /\ fw' = [fw EXCEPT ![PairSeq[k]] = allowed]
                          /\ k' = k + 1
                          /\ pc' = "GenFirewall"
                          /\ UNCHANGED << tape, avail, allowed >>
               /\ UNCHANGED << exploits, privescs, oschoices, sens, hosts, 
                               stuck, crashed, done, hi, prevcfgs, prevos, 
                               prevsrv, prevproc, vulsub, tries, pi, level, 
                               target, cfg, n, phase >>

Complete == /\ pc = "Complete"
            /\ done' = TRUE
            /\ phase' = "done"
            /\ pc' = "Finish"
            /\ UNCHANGED << exploits, privescs, oschoices, sens, hosts, fw, 
                            tape, stuck, crashed, hi, prevcfgs, prevos, 
                            prevsrv, prevproc, vulsub, tries, pi, level, 
                            target, avail, allowed, cfg, n, k >>

Finish == /\ pc = "Finish"
          /\ TRUE
          /\ pc' = "Done"
          /\ UNCHANGED << exploits, privescs, oschoices, sens, hosts, fw, tape, 
                          stuck, crashed, done, hi, prevcfgs, prevos, prevsrv, 
                          prevproc, vulsub, tries, pi, level, target, avail, 
                          allowed, cfg, n, k, phase >>

(* Allow infinite stuttering to prevent deadlock on termination. *)
Terminating == pc = "Done" /\ UNCHANGED vars

Next == GenExploits \/ GenOsChoices \/ GenPrivescs \/ GenSensitive
           \/ GenHostsInit \/ GenHosts \/ NewConfigOS \/ NewConfigSrv
           \/ NewConfigProc \/ NewConfigDone \/ EnsureInit \/ EnsureHosts
           \/ MakeVulnerable \/ MakeVulnerable2 \/ AfterVulnerable
           \/ EnsureSubnets \/ GenFirewallInit \/ GenFirewall \/ PickAllowed
           \/ Complete \/ Finish
           \/ Terminating

Spec == Init /\ [][Next]_vars

Termination == <>(pc = "Done")

\* END TRANSLATION

---------------------------------------------------------------------------
(* what a finished run must look like (C15 clauses that are not true by construction, C16 ingredients) *)

\* the tape is a label (what the RNG returned so far): hidden from the fingerprint
GenView == <<exploits, privescs, oschoices, sens, hosts, fw, stuck, crashed, done, hi, prevcfgs, prevos,
             vulsub, tries, pi, level, target, avail, allowed, cfg, n, k, phase, pc>>

NeverStuck == ~stuck
NeverCrashed == ~crashed

WellFormed ==
    done =>
      /\ Len(exploits) = NE /\ Len(privescs) = NPE
      /\ \A a \in AddrSet : hosts[a].os \in OSs /\ hosts[a].srvs # {} /\ hosts[a].procs # {}
                            /\ hosts[a].srvs \subseteq Srv /\ hosts[a].procs \subseteq Proc
      /\ Cardinality(sens) = 2 /\ <<2, 0>> \in sens /\ \E a \in sens : a[1] = 3
      /\ \A p \in Pairs : fw[p] \subseteq Srv
      /\ \A p \in Pairs : p[2] # 0 => Cardinality(fw[p]) >= 1 /\ Cardinality(fw[p]) <= R

\* C16 ingredients: every sensitive host can be rooted, every subnet has a vulnerable host, and every rule
\* into a network subnet admits a service some exploit can use on a host of that subnet
Solvable ==
    done =>
      /\ \A a \in sens : Vulnerable(hosts[a], 2, exploits, privescs)
      /\ \A s \in 1..3 : \E a \in AddrSet : a[1] = s /\ Vulnerable(hosts[a], 1, exploits, privescs)
      /\ \A p \in Pairs : p[2] # 0 =>
            \E srv \in fw[p] : \E a \in AddrSet : \E i \in 1..Len(exploits) :
               a[1] = p[2] /\ exploits[i].srv = srv /\ ExploitApplies(exploits[i], hosts[a])

\* complete behaviours are handed to the harness (simulation mode): the tape and what the model produced
EmitDone ==
    done => PrintT(<<"TAPE", ToJson([tape |-> tape, exploits |-> exploits, privescs |-> privescs,
                                     sens |-> [i \in 1..Len(Addrs) |-> Addrs[i] \in sens],
                                     hosts |-> [i \in 1..Len(Addrs) |->
                                                  [os |-> hosts[Addrs[i]].os,
                                                   srvs |-> [j \in 1..NS |-> j \in hosts[Addrs[i]].srvs],
                                                   procs |-> [j \in 1..NP |-> j \in hosts[Addrs[i]].procs]]],
                                     fw |-> [i \in 1..Len(PairSeq) |-> [j \in 1..NS |-> j \in fw[PairSeq[i]]]]])>>)
EmitBad == (stuck \/ crashed) => PrintT(<<"BADTAPE", stuck, crashed, phase, ToJson([tape |-> tape])>>)
=============================================================================
