---------------------------- MODULE GenWellFormed ---------------------------
(***************************************************************************)
(* C15: what the scenario generator must return for a parameter set of the *)
(* documented domain, clause by clause, evaluated on the canonical export  *)
(* of every scenario the real generator returned (GEN_FILE, one JSON       *)
(* object per line: [id, params, result]).                                 *)
(*                                                                         *)
(* result = [ok |-> FALSE, kind \in {"raised", "draw_bound", "hung"}, ...] *)
(*        | [ok |-> TRUE, subnets, topology, os, services, processes,      *)
(*           hosts (list of <<addr, [os, srvs, procs, value, dvalue]>>),   *)
(*           sens, exploits, privescs, fw, ...]   numbers in milli / ppm   *)
(* Zones: internet = 0, DMZ = 1, sensitive = 2, user subnets >= 3.         *)
(***************************************************************************)
EXTENDS Integers, Sequences, FiniteSets, TLC, Json, IOUtils, TLCExt

Lines == ndJsonDeserialize(IOEnv.GEN_FILE)
NL == Len(Lines)
VARIABLE l
vars == <<l>>

SeqSet(s) == {s[i] : i \in 1..Len(s)}
NoName == "<none>"
One == 1000000

NumExploits(p) == IF p.num_exploits = -1 THEN p.num_services ELSE p.num_exploits
NumPrivescs(p) == IF p.num_privescs = -1 THEN p.num_processes ELSE p.num_privescs

Conn(S, a, b) == S.topology[a + 1][b + 1] = 1
NS(S) == Len(S.subnets)
Addrs(S) == {S.hosts[i][1] : i \in 1..Len(S.hosts)}
HostRec(S, a) == S.hosts[CHOOSE i \in 1..Len(S.hosts) : S.hosts[i][1] = a][2]
FwKeys(S) == {S.fw[i][1] : i \in 1..Len(S.fw)}
FwOf(S, k) == SeqSet(S.fw[CHOOSE i \in 1..Len(S.fw) : S.fw[i][1] = k][2])
SensAddrs(S) == {S.sens[i][1] : i \in 1..Len(S.sens)}
SensVal(S, a) == S.sens[CHOOSE i \in 1..Len(S.sens) : S.sens[i][1] = a][2]

Max(S) == CHOOSE m \in SeqSet(S.subnets) : \A x \in SeqSet(S.subnets) : x <= m

ProbOK(p, spec, i) ==
    /\ p > 0 /\ p <= One
    /\ CASE spec.kind = "float" -> p = spec.value
         [] spec.kind = "list" -> p = spec.values[i]
         [] spec.kind = "mixed" -> p \in {300000, 600000, 900000}
         [] OTHER -> TRUE

Clauses(P, S) ==
  LET n == NS(S)
      userSubnets == 3..(n - 1)
      lastSub == n - 1
  IN
  << <<"counts",
       /\ Len(S.hosts) = P.num_hosts /\ Cardinality(Addrs(S)) = P.num_hosts
       /\ Len(S.os) = P.num_os /\ Len(S.services) = P.num_services /\ Len(S.processes) = P.num_processes
       /\ Len(S.exploits) = NumExploits(P) /\ Len(S.privescs) = NumPrivescs(P)
       /\ Cardinality(SeqSet(S.os)) = P.num_os /\ Cardinality(SeqSet(S.services)) = P.num_services
       /\ Cardinality(SeqSet(S.processes)) = P.num_processes
       /\ Cardinality({S.exploits[i].name : i \in 1..Len(S.exploits)}) = Len(S.exploits)
       /\ Cardinality({S.privescs[i].name : i \in 1..Len(S.privescs)}) = Len(S.privescs)>>,
     <<"hosts_fill_subnets",
       /\ S.subnets[1] = 1
       /\ Addrs(S) = {<<s, h>> \in (1..(n - 1)) \X (0..P.num_hosts) : h < S.subnets[s + 1]}>>,
     <<"topology_symmetric_selfconnected",
       /\ Len(S.topology) = n
       /\ \A a, b \in 0..(n - 1) :
             /\ S.topology[a + 1][b + 1] \in {0, 1}
             /\ S.topology[a + 1][b + 1] = S.topology[b + 1][a + 1]
       /\ \A a \in 0..(n - 1) : Conn(S, a, a)>>,
     <<"only_dmz_public", \A s \in 1..(n - 1) : Conn(S, s, 0) <=> s = 1>>,
     <<"one_os_some_service_some_process",
       \A a \in Addrs(S) :
          LET h == HostRec(S, a) IN
          /\ Len(h.os) = 1 /\ SeqSet(h.os) \subseteq SeqSet(S.os)
          /\ Len(h.srvs) >= 1 /\ SeqSet(h.srvs) \subseteq SeqSet(S.services)
          /\ Len(h.procs) >= 1 /\ SeqSet(h.procs) \subseteq SeqSet(S.processes)>>,
     <<"definitions_reference_defined",
       /\ \A i \in 1..Len(S.exploits) :
             /\ S.exploits[i].target \in SeqSet(S.services)
             /\ S.exploits[i].os \in SeqSet(S.os) \cup {NoName}
             /\ S.exploits[i].access \in {1, 2}
       /\ \A i \in 1..Len(S.privescs) :
             /\ S.privescs[i].target \in SeqSet(S.processes)
             /\ S.privescs[i].os \in SeqSet(S.os) \cup {NoName}
             /\ S.privescs[i].access \in {1, 2}>>,
     <<"costs_and_probs",
       /\ \A i \in 1..Len(S.exploits) :
             S.exploits[i].cost = P.exploit_cost /\ ProbOK(S.exploits[i].prob, P.exploit_probs, i)
       /\ \A i \in 1..Len(S.privescs) :
             S.privescs[i].cost = P.privesc_cost /\ ProbOK(S.privescs[i].prob, P.privesc_probs, i)
       /\ S.scan = <<P.service_scan_cost, P.os_scan_cost, P.subnet_scan_cost, P.process_scan_cost>> >>,
     <<"sensitive_hosts_and_values",
       /\ Cardinality(SensAddrs(S)) = 2 /\ Len(S.sens) = 2
       /\ <<2, 0>> \in SensAddrs(S) /\ SensVal(S, <<2, 0>>) = P.r_sensitive
       /\ \E a \in SensAddrs(S) :
             /\ a[1] >= 3 /\ a \in Addrs(S) /\ SensVal(S, a) = P.r_user
             /\ ~P.random_goal => a = <<lastSub, S.subnets[lastSub + 1] - 1>>
       /\ \A a \in Addrs(S) :
             /\ HostRec(S, a).value = (IF a \in SensAddrs(S) THEN SensVal(S, a) ELSE P.base_host_value)
             /\ HostRec(S, a).dvalue = P.host_discovery_value>>,
     <<"firewall_keys_are_connected_pairs",
       FwKeys(S) = {<<a, b>> \in (0..(n - 1)) \X (0..(n - 1)) : a # b /\ Conn(S, a, b)}
       /\ Cardinality(FwKeys(S)) = Len(S.fw)>>,
     <<"firewall_lists_defined_services", \A k \in FwKeys(S) : FwOf(S, k) \subseteq SeqSet(S.services)>>,
     <<"user_subnets_unrestricted",
       \A k \in FwKeys(S) : (k[1] > 2 /\ k[2] > 2) => FwOf(S, k) = SeqSet(S.services)>>,
     <<"zone_crossing_allows_1_to_r",
       \A k \in FwKeys(S) :
          (~(k[1] > 2 /\ k[2] > 2) /\ k[2] # 0)
             => Cardinality(FwOf(S, k)) >= 1 /\ Cardinality(FwOf(S, k)) <= P.restrictiveness>>,
     <<"address_bounds_and_step_limit",
       /\ S.bounds = (IF P.bounds_given THEN P.bounds ELSE <<n, Max(S)>>)
       /\ S.step_limit = P.step_limit>> >>

Init == l = 1
Next ==
    /\ l <= NL
    /\ LET ln == Lines[l]  R == ln.result IN
       IF ~R.ok
         THEN PrintT(<<"FAIL", "C15", IF R.kind = "raised" THEN "no_exception" ELSE "terminates", ln.id>>)
         ELSE LET cs == Clauses(ln.params, R) IN
              \A i \in 1..Len(cs) : IF cs[i][2] THEN TRUE ELSE PrintT(<<"FAIL", "C15", cs[i][1], ln.id>>)
    /\ l' = l + 1
Spec == Init /\ [][Next]_vars

Accepted ==
    /\ PrintT(<<"CONSUMED", TLCGet("stats").diameter - 1, NL>>)
    /\ TLCGet("stats").diameter - 1 = NL
=============================================================================
