----------------------------- MODULE NASimEnv ------------------------------
(***************************************************************************)
(* The environment as a state machine over the reference semantics:        *)
(* Reset, Step(k, luck).  TLC explores it exhaustively per scenario.       *)
(*                                                                         *)
(*  - every generated transition is turned into an executed-action record  *)
(*    (Clauses!E) in both observation modes and all property clauses are   *)
(*    evaluated on it (action constraint ClausesHold): the reference       *)
(*    model itself satisfies C01-C08;                                      *)
(*  - state invariants: C03 (reachability / discovery), C05 history        *)
(*    (every value paid at most once), type correctness;                   *)
(*  - with DumpEdges every transition is printed so that the harness can   *)
(*    execute all of them on the real implementation (spec => code).       *)
(*                                                                         *)
(* `last` is a label variable (which action, which side of the draw); it   *)
(* is hidden from the fingerprint by VIEW so that it does not multiply     *)
(* states.                                                                 *)
(***************************************************************************)
EXTENDS Clauses

CONSTANTS StepCap,      \* -1: step counter not tracked; n >= 0: tracked, explored up to n
          DumpEdges     \* BOOLEAN: print every transition

VARIABLES cur, steps, paidVal, paidDisc, last

Untracked == -1         \* cfg files cannot write a negative literal: StepCap <- Untracked

vars == <<cur, steps, paidVal, paidDisc, last>>
view == <<cur, steps, paidVal, paidDisc>>

NExtra == Len(ExtraActions)
ActionAt(k) ==
    IF k = 0 THEN NoopAct
    ELSE IF k <= NActions THEN FlatAt(k)
    ELSE ExtraActions[k - NActions]
ActionIds == 0..(NActions + NExtra)

StateSpace == [Hosts -> [comp : BOOLEAN, acc : 0..2, reach : BOOLEAN, disc : BOOLEAN]]

KeyOf(st) ==
    [i \in 1..NHosts |->
        LET s == st[HostOrder[i]] IN
        (IF s.comp THEN 1 ELSE 0) + (IF s.reach THEN 2 ELSE 0)
        + (IF s.disc THEN 4 ELSE 0) + 8 * s.acc]

Init ==
    /\ cur = InitSt
    /\ steps = 0
    /\ paidVal = {}
    /\ paidDisc = {}
    /\ last = [ev |-> "init"]
    /\ IF DumpEdges
         THEN /\ PrintT(<<"INIT", KeyOf(InitSt)>>)
              /\ \A k \in 1..NActions :
                    PrintT(<<"PARAM", k, EncodeParam(FlatAt(k)), Expressible(FlatAt(k))>>)
         ELSE TRUE

Reset ==
    /\ cur' = InitSt
    /\ steps' = 0
    /\ paidVal' = {}
    /\ paidDisc' = {}
    /\ last' = [ev |-> "reset"]

Rooted(s, t) == {h \in Hosts : s[h].acc # 2 /\ t[h].acc = 2}
Found(s, t) == {h \in Hosts : ~s[h].disc /\ t[h].disc}

Step(k, luck) ==
    LET a == ActionAt(k)
        x == Trans(cur, a, luck) IN
    /\ FeasibleLuck(a, luck)
    /\ cur' = x.st
    /\ steps' = IF StepCap = -1 THEN steps ELSE steps + 1
    /\ paidVal' = paidVal \cup Rooted(cur, x.st)
    /\ paidDisc' = paidDisc \cup Found(cur, x.st)
    /\ last' = [ev |-> "step", k |-> k, luck |-> luck]

Next == Reset \/ \E k \in ActionIds, luck \in BOOLEAN : Step(k, luck)

Spec == Init /\ [][Next]_vars

StepBound == StepCap = -1 \/ steps <= StepCap

---------------------------------------------------------------------------
(* the executed-action record of the transition just generated             *)

EOf(fo) ==
    LET a == ActionAt(last'.k)
        x == Trans(cur, a, last'.luck)
        sb == steps
        sa == sb + 1 IN
    [ev |-> "step", a |-> a, luck |-> last'.luck, ndraw |-> x.ndraw, blind |-> FALSE,
     pre |-> cur, post |-> cur',
     res |-> [success |-> x.success, value |-> x.value, disc |-> x.disc,
              newly |-> x.newly, flags |-> x.flags],
     reward |-> x.value - a.cost, term |-> Goal(cur'),
     trunc |-> (StepLimit # NoLimit /\ sa >= StepLimit),
     stepsB |-> sb, stepsA |-> sa, fo |-> fo,
     obs |-> [h \in Hosts |-> ExpObsRow(cur', a, x, fo, h)],
     aux |-> AuxRow(x),
     postRow |-> [h \in Hosts |-> EncodeRow(cur', h)]]

\* Every transition of the reference semantics is an instance of the abstract relation of NASimSym.tla (whose
\* invariants Apalache proves for EVERY scenario up to 4 subnets x 2 hosts): no change, or one of the three
\* effects under the preconditions that matter there.
SymRefines(s, t, a) ==
    LET tg == a.target
        frame(fs) == \A h \in Hosts : \A f \in fs :
                        CASE f = "comp" -> t[h].comp = s[h].comp [] f = "acc" -> t[h].acc = s[h].acc
                          [] f = "disc" -> t[h].disc = s[h].disc [] OTHER -> t[h].reach = s[h].reach
    IN \/ t = s
       \/ /\ s[tg].reach /\ s[tg].disc /\ t[tg].comp /\ t[tg].acc \in {s[tg].acc, 1, 2} /\ t[tg].acc >= s[tg].acc
          /\ \A h \in Hosts : h # tg => t[h].comp = s[h].comp /\ t[h].acc = s[h].acc
          /\ \A h \in Hosts : t[h].reach = (s[h].reach \/ Connected(Sub(tg), Sub(h)))
          /\ frame({"disc"})
       \/ /\ s[tg].reach /\ s[tg].disc /\ s[tg].comp /\ t[tg].acc >= s[tg].acc
          /\ \A h \in Hosts : h # tg => t[h].acc = s[h].acc
          /\ frame({"comp", "disc", "reach"})
       \/ /\ s[tg].reach /\ s[tg].disc /\ s[tg].comp /\ s[tg].acc >= 1
          /\ \A h \in Hosts : t[h].disc = (s[h].disc \/ Connected(Sub(tg), Sub(h)))
          /\ frame({"comp", "acc", "reach"})

ClausesHold ==
    IF last'.ev # "step" THEN
        (~DumpEdges) \/ PrintT(<<"RESET", KeyOf(cur)>>)
    ELSE
      LET bad == Failed(StepClauses(EOf(TRUE))) \cup Failed(StepClauses(EOf(FALSE)))
          paidTwice == (Rooted(cur, cur') \cap paidVal) \cup (Found(cur, cur') \cap paidDisc)
          fastOK == (last'.luck /\ last'.k >= 1)
                       => (WouldChange(cur, ActionAt(last'.k)) <=> cur' # cur)
      IN /\ bad = {} \/ Assert(FALSE, <<"SPECFAIL", bad, KeyOf(cur), last'>>)
         /\ fastOK \/ Assert(FALSE, <<"SPECFAIL-WouldChange", KeyOf(cur), last'>>)
         /\ SymRefines(cur, cur', ActionAt(last'.k))
               \/ Assert(FALSE, <<"SPECFAIL-SymRefines", KeyOf(cur), last'>>)
         /\ paidTwice = {} \/ Assert(FALSE, <<"SPECFAIL-paid-twice", paidTwice, KeyOf(cur), last'>>)
         /\ (~DumpEdges) \/
              PrintT(<<"EDGE", KeyOf(cur), last'.k, last'.luck, KeyOf(cur'),
                       Trans(cur, ActionAt(last'.k), last'.luck).gate>>)

---------------------------------------------------------------------------
(* invariants                                                              *)

TypeOK == cur \in StateSpace /\ paidVal \subseteq Hosts /\ paidDisc \subseteq Hosts
InvReach == ReachInv(cur)
InvChain == ChainInv(cur)
\* C05 history: the hosts whose value / discovery value has been paid are
\* exactly the rooted / non-initially-discovered ones, so none can be paid
\* again (payments happen only on the step that changes that status)
InvPaidVal == paidVal = {h \in Hosts : cur[h].acc = 2}
InvPaidDisc == paidDisc = {h \in Hosts : cur[h].disc /\ ~Public(Sub(h))}
\* C04 at design level: every step is monotone, reset returns to InitSt
MonotoneSteps == [][last'.ev = "step" => StateLeq(cur, cur')]_vars
ResetRestores == [][last'.ev = "reset" => cur' = InitSt /\ steps' = 0]_vars
\* C16 helper: the goal is reachable iff this invariant is violated
GoalNeverReached == ~Goal(cur)

=============================================================================
