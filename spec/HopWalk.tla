------------------------------ MODULE HopWalk -------------------------------
(***************************************************************************)
(* The hop count the implementation is documented to compute               *)
(* (nasim/envs/utils.py get_minimal_hops_to_goal): all-pairs shortest      *)
(* paths, then the cheapest order of visiting the internet and every       *)
(* sensitive subnet, summing pairwise distances.  Used only to recognise   *)
(* the known finding KF_PermutationWalk of C20 (small topologies).         *)
(***************************************************************************)
EXTENDS NASimCore, SequencesExt

Inf == 1000
RECURSIVE FW_(_, _)
FW_(k, d) ==
    IF k > NSub THEN d
    ELSE FW_(k + 1, [i \in 1..NSub |-> [j \in 1..NSub |->
             IF d[i][k] + d[k][j] < d[i][j] THEN d[i][k] + d[k][j] ELSE d[i][j]]])
Dist == FW_(1, [i \in 1..NSub |-> [j \in 1..NSub |->
                   IF i = j THEN 0 ELSE IF Topo[i][j] = 1 THEN 1 ELSE Inf]])
ToVisit == {0} \cup {Sub(h) : h \in Sens}
WalkLen(p) == LET RECURSIVE go(_)
                  go(i) == IF i >= Len(p) THEN 0 ELSE Dist[p[i] + 1][p[i + 1] + 1] + go(i + 1)
              IN go(1)
PermWalk == Min({WalkLen(p) : p \in SetToSeqs(ToVisit)})


\* evaluated by TLC as a constant expression (config: no behaviour spec needed)
ASSUME PrintT(<<"PERMWALK", PermWalk>>)
=============================================================================
