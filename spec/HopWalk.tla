------------------------------ MODULE HopWalk -------------------------------
(***************************************************************************)
(* The hop count the implementation is documented to compute               *)
(* (nasim/envs/utils.py get_minimal_hops_to_goal): all-pairs shortest      *)
(* paths, then the cheapest order of visiting the internet and every       *)
(* sensitive subnet, summing pairwise distances.  Used only to recognise   *)
(* the known finding KF_PermutationWalk of C20 (small topologies).         *)
(***************************************************************************)
EXTENDS NASimCore, SequencesExt

Inf == 1000
RECURSIVE FW_(_, _)
FW_(k, d) ==
    IF k > NSub THEN d
    ELSE FW_(k + 1, [i \in 1..NSub |-> [j \in 1..NSub |->
             IF d[i][k] + d[k][j] < d[i][j] THEN d[i][k] + d[k][j] ELSE d[i][j]]])
Dist == FW_(1, [i \in 1..NSub |-> [j \in 1..NSub |->
                   IF i = j THEN 0 ELSE IF Topo[i][j] = 1 THEN 1 ELSE Inf]])
ToVisit == {0} \cup {Sub(h) : h \in Sens}
WalkLen(p) == LET RECURSIVE go(_)
                  go(i) == IF i >= Len(p) THEN 0 ELSE Dist[p[i] + 1][p[i + 1] + 1] + go(i + 1)
              IN go(1)
PermWalk == Min({WalkLen(p) : p \in SetToSeqs(ToVisit)})


\* Signature of the known finding KF_PermutationWalk (D10): the advertised hop count is the value of the
\* permutation walk, that walk over-counts (it exceeds the number of hosts that really have to be compromised,
\* minComp, found by TLC on the firewall-free twin), and the observed excess of the total over the advertised
\* bound is explained by that over-count alone (every hop costs at least 1).
KF_PermutationWalk(minComp, maxScore) ==
    /\ AdvHops = PermWalk
    /\ PermWalk > minComp
    /\ maxScore <= AdvUB + 1000 * (PermWalk - minComp)

VARIABLE dummy
DummySpec == dummy = 0 /\ [][dummy' = dummy]_dummy
=============================================================================
