#!/bin/sh
# offline set-up: nothing to build; parse every specification module with SANY against a sample scenario
cd "$(dirname "$0")" || exit 2
set -e
T=$(mktemp -d /tmp/nasimverif-setup-XXXXXX)
trap 'rm -rf "$T"' EXIT
cp spec/*.tla "$T"/
PYTHONHASHSEED=0 PYTHONPATH=/repo:. /venv/bin/python - "$T" <<'PY'
import sys
from harness import corpus
from harness.export import render_scenario_tla
open(sys.argv[1] + "/Scenario.tla", "w").write(render_scenario_tla(corpus.cs_of(corpus.SPECS["os_mix"])))
PY
cd "$T"
for m in *.tla; do
  case "$m" in Scenario.tla) continue;; NASimProof.tla) continue;; esac      # NASimProof: parsed and checked by tlapm below
  java -cp /opt/veriftools/tla/tla2tools.jar:/opt/veriftools/tla/CommunityModules-deps.jar tla2sany.SANY "$m" > sany.out 2>&1 || { cat sany.out; echo "SANY failed on $m"; exit 1; }
  if grep -q "Could not\|\*\*\* Errors\|Fatal" sany.out; then cat sany.out; echo "SANY failed on $m"; exit 1; fi
done
timeout 600 tlapm --cleanfp NASimProof.tla > tlapm.out 2>&1 || true
grep -q "obligations proved" tlapm.out || { tail -20 tlapm.out; echo "tlapm failed on NASimProof.tla"; exit 1; }
echo "setup ok: $(ls *.tla | wc -l) modules parsed, NASimProof.tla: $(grep -o 'All [0-9]* obligations proved' tlapm.out)"
