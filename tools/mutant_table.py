#!/usr/bin/env python3
"""tools/mutant_table.py <round tag, e.g. r3> : markdown table of the seeded changes of one round from their meta.json
(id | clause that reports it | change | caught by); the last column comes from seeded/<id>/meta.json 'caught_by'."""
import glob, json, os, re, sys
root = os.path.dirname(os.path.dirname(os.path.abspath(__file__)))
tag = sys.argv[1]
print("| id | clause that reports it | change | caught by |")
print("|---|---|---|---|")
for d in sorted(glob.glob(os.path.join(root, "seeded", "C??-%sm?" % tag))):
    m = json.load(open(os.path.join(d, "meta.json")))
    chk = " ".join(m["confirmed"]["check"])
    cl = re.search(r"clause ([a-z_A-Z0-9.]+)", chk) or re.search(r"violated: C\d\d: ([a-z_A-Z0-9.]+(?: \([^)]*\))?)", chk)
    clause = cl.group(1) if cl else "-"
    if "exit 1" not in chk:
        clause = "-"
    summ = m["summary"].replace("|", "/").replace("\n", " ")
    print("| %s | `%s` | %s | %s |" % (os.path.basename(d), clause, summ[:120] + ("…" if len(summ) > 120 else ""),
                                   m.get("caught_by", "?")))
