#!/usr/bin/env python3
"""tools/keep_mutant.py <agent out dir> <n> <seeded id>  -- files a confirmed seeded change under /verif/seeded/<id>/"""
import json, os, shutil, sys, re
out, n, sid = sys.argv[1], sys.argv[2], sys.argv[3]
d = os.path.join(os.path.dirname(os.path.dirname(os.path.abspath(__file__))), "seeded", sid)
os.makedirs(d, exist_ok=True)
shutil.copy(os.path.join(out, "m%s.diff" % n), os.path.join(d, "patch.diff"))
shutil.copy(os.path.join(out, "m%s_demo.py" % n), os.path.join(d, "demo.py"))
meta = json.load(open(os.path.join(out, "m%s.json" % n)))
ev = ""
for f in ("m%s.eval2" % n, "m%s.eval" % n):
    p = os.path.join(out, f)
    if os.path.exists(p):
        ev = open(p).read()
        break
first = open(os.path.join(out, "m%s.eval" % n)).read() if os.path.exists(os.path.join(out, "m%s.eval" % n)) else ""
meta = dict(property=meta.get("property"), summary=meta.get("summary"), needs=meta.get("needs"), files=meta.get("files"),
            confirmed=dict(
                how="applied with git apply in a scratch worktree of /repo (outside /repo and /verif); pinned suite run "
                    "with tools/eval_mutant.sh (harness/baseline_check.py: all 1092 baseline-passing tests still pass); "
                    "demo.py exits 0 on the clean tree and non-zero with the patch; quick check run with "
                    "VERIF_REPO=<worktree>",
                suite=[l for l in first.splitlines() if l.startswith("baseline")][:1],
                demo=[l for l in first.splitlines() if l.startswith("demo")],
                check=[l[:600] for l in ev.splitlines() if l.startswith("check ")]))
json.dump(meta, open(os.path.join(d, "meta.json"), "w"), indent=1)
print(sid, meta["confirmed"]["check"])
