#!/bin/sh
# tools/regress_seeded.sh <clean scratch worktree of /repo> <out dir> <seeded id>...
# Re-runs, with the machinery as it is now, the quick check(s) that reported each filed seeded change (the property
# of the change plus any other property named in its recorded check lines) against the patched worktree, and writes
# <out dir>/<id>.txt.  Never touches /repo.
WT=$1; OUT=$2; shift 2
mkdir -p "$OUT"
ROOT=$(cd "$(dirname "$0")/.." && pwd)
for ID in "$@"; do
  D=$ROOT/seeded/$ID
  P=$(echo "$ID" | cut -c1-3)
  PROPS=$(/venv/bin/python - "$D/meta.json" "$P" <<'PY'
import json, re, sys
m = json.load(open(sys.argv[1]))
ps = [sys.argv[2]]
for l in m["confirmed"]["check"]:
    for q in re.findall(r"check (C\d\d): exit 1", l):
        if q not in ps:
            ps.append(q)
print(" ".join(ps))
PY
)
  git -C "$WT" checkout -q -- . && git -C "$WT" apply "$D/patch.diff" || { echo "patch does not apply" > "$OUT/$ID.txt"; continue; }
  : > "$OUT/$ID.txt"
  EV=$(mktemp -d /tmp/nasimverif-reg-XXXXXX)
  for Q in $PROPS; do
    VERIF_REPO="$WT" VERIF_EVIDENCE="$EV" timeout 3000 "$ROOT/check" "$Q" > "$EV/$Q.out" 2>&1
    echo "check $Q: exit $? $(grep -c '^VIOLATION' "$EV/$Q.out") violation lines; $(grep '^violated' "$EV/$Q.out" | head -2 | cut -c1-300 | tr '\n' ' ')" >> "$OUT/$ID.txt"
    grep "MACHINERY" "$EV/$Q.out" | head -2 >> "$OUT/$ID.txt"
  done
  rm -rf "$EV"
  git -C "$WT" checkout -q -- .
done
