#!/bin/sh
# tools/eval_mutant.sh <clean worktree of /repo> <patch.diff> <demo.py|-> <property> [more properties...]
# Applies the patch in the scratch worktree (never in /repo), confirms that the pinned suite keeps its passing
# tests, that the demonstration fails with the patch and passes without, and runs the quick checks of the given
# properties against the patched worktree (VERIF_REPO).  Leaves the worktree clean.
WT=$1; DIFF=$2; DEMO=$3; shift 3
EV=$(mktemp -d /tmp/nasimverif-mut-XXXXXX)
git -C "$WT" checkout -q -- . || exit 2
if [ "$DEMO" != "-" ]; then
  (cd "$WT" && PYTHONPATH="$WT" timeout 600 /venv/bin/python "$DEMO" >/dev/null 2>&1); echo "demo on clean tree: exit $?"
fi
git -C "$WT" apply "$DIFF" || { echo "patch does not apply"; exit 2; }
if [ "$DEMO" != "-" ]; then
  (cd "$WT" && PYTHONPATH="$WT" timeout 600 /venv/bin/python "$DEMO" >/dev/null 2>&1); echo "demo with patch: exit $?"
fi
if [ -z "$SKIP_SUITE" ]; then /verif/harness/baseline_check.py "$WT" | head -5; fi
for P in "$@"; do
  VERIF_REPO="$WT" VERIF_EVIDENCE="$EV" /verif/check "$P" --tier "${TIER:-quick}" > "$EV/$P.out" 2>&1
  echo "check $P: exit $? $(grep -c '^VIOLATION' "$EV/$P.out") violation lines; $(grep '^violated' "$EV/$P.out" | head -2 | tr '\n' ' ')"
  grep "MACHINERY" "$EV/$P.out" | head -3
done
git -C "$WT" checkout -q -- .
rm -rf "$EV"
